#!/usr/bin/env python3
"""writes seeded/<id>-m5..m7/meta.json from tools/r4_meta_table.py, confirm.txt and the check outputs in a results directory"""
import json, os, re, sys
sys.path.insert(0, os.path.dirname(__file__))
from r4_meta_table import T
try:
    from r4_meta_table import ADDED, CAUGHT, NOTE
except ImportError:
    ADDED, CAUGHT, NOTE = {}, {}, {}
res = sys.argv[1] if len(sys.argv) > 1 else "/tmp/r4"
root = os.path.join(os.path.dirname(__file__), "..", "seeded")
for name, (change, needs) in sorted(T.items()):
    d = os.path.join(root, name)
    if not os.path.isdir(d):
        print("missing", name); continue
    out = open(os.path.join(res, name + ".txt")).read() if os.path.exists(os.path.join(res, name + ".txt")) else ""
    viol = re.findall(r"violated: (.+?\]|[^ ]+): ", out)
    first = out.splitlines()[0] if out else "full quick check not run (time): see the targeted run"
    tgt = open(os.path.join(res, name + ".tgt")).read() if os.path.exists(os.path.join(res, name + ".tgt")) else ""
    tviol = re.findall(r"violated: (.+?\]|[^ ]+): ", tgt)
    if not viol and tviol:
        viol = tviol
    meta = {
        "property": name.split("-")[0],
        "change": change,
        "needs_to_manifest": needs,
        "confirmed": open(os.path.join(d, "confirm.txt")).read().strip(),
        "ran": [f"tools/confirm_mutant.sh seeded/{name}", f"tools/try_mutant_wt.sh seeded/{name}/patch.diff {name.split('-')[0]}  (patch applied in a scratch worktree of /repo, quick check through VF_REPO) -> {first}"]
               + ([f"targeted run: tools/try_mutant_wt.sh seeded/{name}/patch.diff <check> --only '<family>|selftest' -> {tgt.splitlines()[0] if tgt else 'exit=1, VIOLATION'}"] if (tgt or name in CAUGHT) else []),
        "caught_by": CAUGHT.get(name) or ", ".join(dict.fromkeys(viol[:4])) or "NOT CAUGHT",
        "origin": "fourth-round independent sub-agent (property text + scratch worktree + the change ideas of rounds 1-3 named as off-limits; three changes per property)",
    }
    if name in ADDED:
        meta["obligations_added_for_it"] = ADDED[name]
    if name in NOTE:
        meta["note"] = NOTE[name]
    json.dump(meta, open(os.path.join(d, "meta.json"), "w"), indent=1, ensure_ascii=False)
    print(name, meta["caught_by"][:100])
