#!/usr/bin/env python3
"""Regenerate MANIFEST.json from checks/registry.py (the single source of truth for what is claimed)."""
import json
import os
import sys

VERIF = os.path.dirname(os.path.dirname(os.path.abspath(__file__)))
sys.path.insert(0, VERIF)
from checks import registry  # noqa

props = [json.loads(l)["id"] for l in open(os.path.join(VERIF, "properties.jsonl"))]
checks = []
na = []
for pid in props:
    c = registry.CLAIMS.get(pid)
    if c is None:
        na.append({"property_id": pid, "reason": registry.NOT_APPLICABLE.get(pid, "check not built yet (see DESIGN.md section 6)")})
        continue
    checks.append({
        "property_id": pid,
        "quick_cmd": f"./vf check {pid} --tier quick",
        "thorough_cmd": f"./vf check {pid} --tier thorough",
        "evidence_file": f"/verif/evidence/{pid}.json",
        "replay_cmd_template": "./vf replay {path}",
        "engine": c.get("engine", "xhair+tplz3"),
        "level_claimed": {"category": "other", "text": c["text"], "design_ref": c.get("design_ref", "DESIGN.md section 5")},
        "level_note": c["note"],
        "technique": c["technique"],
    })
m = {
    "version": 1,
    "setup_cmd": "./setup.sh",
    "hooks": {
        "guard": "MICHAELHAUSSMANN_SPIL_VERIF",
        "enable": "no source hooks are needed: the harness patches caches / logging / pathlib at import time inside its own process (xhair/env.py); the guard is declared but unused",
        "baseline_off_cmd": "cd /repo && /venv/bin/python -m pytest -ra -q -p no:cacheprovider --timeout=900 --continue-on-collection-errors",
        "source_commits": [],
        "add_only": True,
    },
    "engines": [
        {"name": "xhair", "path": "xhair/", "serves_properties": sorted(registry.CLAIMS), "kind_free_text": "CrossHair 0.0.110 symbolic execution (z3) of the real spil functions under a miniature configuration; one process per obligation; native replay of every counterexample"},
        {"name": "tplz3", "path": "tplz3/", "serves_properties": sorted(p for p, c in registry.CLAIMS.items() if c.get("z")), "kind_free_text": "z3 regular-language queries over the live (shipped) configuration objects built by the real loaders"},
    ],
    "checks": checks,
    "not_applicable": na,
    "notes": "All checks: exit 0 = held on everything explored (inconclusive obligations listed in the evidence), exit 1 + VIOLATION line = counterexample reproduced natively on the real code, exit 2 = infrastructure failure.",
}
json.dump(m, open(os.path.join(VERIF, "MANIFEST.json"), "w"), indent=1)
print(f"{len(checks)} claimed, {len(na)} not applicable")
