#!/bin/bash
# usage: tools/try_mutant_wt.sh <patch.diff> <PROPERTY> [extra vf args]
# Like try_mutant.sh, but leaves /repo alone: the patch is applied in a scratch worktree of /repo's HEAD and the check
# runs against it through VF_REPO (used while a long background run reads /repo).
set -u
P="$(realpath "$1")"; ID="$2"; shift 2
W=/tmp/mutwt_$$
git -C /repo worktree add -q --detach "$W" HEAD || exit 3
( cd "$W" && git apply "$P" ) || { echo "PATCH DOES NOT APPLY: $P"; git -C /repo worktree remove --force "$W"; exit 4; }
cd /verif
VF_REPO="$W" ./vf check "$ID" "$@" > /tmp/mutwt_$$.log 2>&1
rc=$?
git -C /repo worktree remove --force "$W"
echo "exit=$rc  $(grep -c '^VIOLATION' /tmp/mutwt_$$.log) violation lines"
grep -E "violated:|^C[0-9]+ \[|harness error" /tmp/mutwt_$$.log | cut -c1-330 | head -6
cp /tmp/mutwt_$$.log /tmp/last_mut.log; rm -f /tmp/mutwt_$$.log
exit $rc
