#!/bin/bash
# usage: tools/r5_ingest.sh <ID>   -- copies /tmp/wt6_<ID>/mutant{1,2}.diff + demo{1,2}.py to seeded/<ID>-m11, -m12,
# removes the sub-agent's scratch worktree and confirms both changes (tools/confirm_mutant.sh).
set -u
cd "$(dirname "$0")/.."
ID="$1"; W=/tmp/wt6_$ID
for k in 1 2; do
  n=$((10+k)); D=seeded/$ID-m$n
  [ -f $W/mutant$k.diff ] || { echo "$ID: no mutant$k"; continue; }
  mkdir -p $D; cp $W/mutant$k.diff $D/patch.diff; cp $W/demo$k.py $D/demo.py
done
git -C /repo worktree remove --force $W
for k in 11 12; do [ -d seeded/$ID-m$k ] && tools/confirm_mutant.sh seeded/$ID-m$k; done
