#!/usr/bin/env python3
"""writes seeded/<id>-m11, -m12/meta.json of round 5 (six properties, two changes each) from the table below and confirm.txt"""
import json, os
root = os.path.join(os.path.dirname(os.path.abspath(__file__)), "..", "seeded")
ORIGIN = "fifth-round independent sub-agent (property text + scratch worktree + the ten earlier change ideas of that property named as off-limits; two changes per property)"
T = {
 "C03-m11": ("TypedSid.parent takes the parent key from conf.key_types[basetype] (configured key order) instead of the Sid's own second-to-last key",
             "a shot file / movie / cache Sid WITHOUT the optional 'node' level, e.g. hamlet/s/sq010/sh0010/anim/v001/w/ma (shipped configuration only)",
             "C03-parent[shipped,'hamlet/s/sq010/sh0010/anim/v001/w/m'+1+''], C03-walk[shipped, same]", True,
             "shipped skeleton of a shot file without node level (trailing symbolic character; the skeleton with the symbolic character in the version was inconclusive at 170 s)", "targeted"),
 "C03-m12": ("TypedSid.__len__ counts separators of the string (+1) instead of the fields",
             "a typed Sid that keeps a refused query whose value contains '/', e.g. Sid('hamlet/a/char/ophelia?path=/mnt')",
             "C03-refused-query['h/a/x?'+2+''] ('=/'), C03-refused-query['h/a/x?q='+1+'/b'], C03-refused-query['h/s/q1/v1?q=b'+1+'c/']", True,
             "C03-refused-query (the parent / walk obligations skip Sids that keep a refused query; len / keytype / basetype / parent length are now asserted for them, query key concrete because a symbolic dictionary key is realised)", "targeted"),
 "C06-m11": ("fs_resolver.path_to_dict strips the path (`str(path).strip()`)",
             "a valid path padded with white space (' ', '\\n', '\\u3000' ...)",
             "C06-from-path[local,'/r/H/A/'+2] ('\\x00\\u3000'), C06-from-path[local,'/r/H/A/x/'+2] ('*\\x1c')", False, None, "targeted"),
 "C06-m12": ("_resolve_conform memoises positive results in a module-level dict keyed on (label, path) - the path configuration is not part of the key",
             "the same path resolved under 'local', then under 'server' (or the reverse) in one process",
             "C06-other-config-first[local then server,'/r/H/A/x/'+2], [server then local,'/z/H/A/x/'+2], [local then server,'/r/H/A/'+1]", True,
             "C06-other-config-first (two-call history across configurations; C06-seq only repeated paths within one configuration)", "targeted"),
 "C09-m11": ("sorted_search replaces only the first '>' by '*' (`replace('>', '*', 1)`)",
             "a search with two '>' signs, e.g. hamlet/a/char/ophelia/>/>",
             "C09-list[h/a/>/>,'h/a/'] (group-without-answer)", False, None, "full"),
 "C09-m12": ("sorted_search sorts with a 'natural' key (digit runs compared as integers) instead of x.split('/')",
             "names whose digit runs differ in width (crate9 / crate10)",
             "C09-list[h/a/x,y/>,'h/a/'] (not-the-greatest-of-its-group), C09-get_last[h/a/x,version] (Unicode digits)", False, None, "full"),
 "C12-m11": ("FindInAll.find skips unfold_search for a typed Sid OBJECT whose string has '*' but no other search symbol",
             "siblings() / children() in a folder holding entities of several types (the '/*' search Sid is typed as the first matching type only)",
             "C12-sid[h/s/q1/v1,...] missing-child, C12-sid[h/s/q1/v1/c,...] missing-sibling, C12-sid[h/a/x/v1/m,...], C12-sid[h,...]", False, None, "full"),
 "C12-m12": ("FindInPaths remembers per instance the folders that did not exist (`_missing_dirs`) and skips later searches below them",
             "exists() asked before the entity is created, then the entity is created, then exists() / children() / siblings() again - through FindInPaths",
             "C12-paths[miniB,m/p/x/it/01/s/*], C12-paths[h/s/q1/v1/a,m] - BUT through an artefact of the environment model, not through the history", False, None, "full"),
 "C15-m11": ("WriteToPaths.create: the 'already exists' guard tests path.is_file() and the folder branch uses mkdir(exist_ok=True)",
             "create() on a folder-type Sid that already exists (explicitly or as the parent of a descendant)",
             "C15-step[create,h/a/x,stored#02,second#13,local], C15-step[create,h,...], C15-step[create_data,h/a/x/v1,...] (expected-spilexception)", False, None, "full"),
 "C15-m12": ("GetFromPaths.get_data seeds {'sid': ...} BEFORE loading the side-car, so a stored 'sid' key wins",
             "a 'sid' key written into the side-car (data copied from another entity), then read",
             "C15-step[set,h/a/x/v1,stored#02,second#13,local] and two more (read-back-differs-from-overlay)", False, None, "full"),
 "C18-m11": ("GetFromAll.get_attr hands str(sid) to the 'next.version' getter (the type is dropped and re-resolved from the bare string)",
             "a Sid typed through its uri prefix with a type that is not the first match of its string: shot__cache_node:hamlet/s/sq010/sh0010/anim/v001/w/abc",
             "C18-next[shipped,shot__cache_node:hamlet/s/sq010/sh0010/anim/v01?/w/abc] (next-type-changed)", True,
             "C18-next on a forced (non-first-match) type of the shipped configuration", "full quick check: exit=0 (missed), then targeted"),
 "C18-m12": ("NextGetter.get_attr: end-of-range guard `if version >= 999: return Sid()` after the increment (should be > 999)",
             "get_next('version') on v998",
             "C18-new[miniA,h/a/x/v99?/m,probe=3], C18-publish[miniA,h/a/x/v99?/m], C18-next[miniA,h/s/q1/v99?]", False, None, "full"),
}
NOTE = {
 "C12-m12": "the C12-paths obligations stub glob.glob from an explicit universe of paths, while the change asks Path.is_dir() of the REAL file system, where nothing of that universe exists: every search is skipped and the obligations fail for that reason. The mechanism the sub-agent built (negative cache surviving a creation) is not reached by a C12 obligation: C12-after-change runs its create / remove history over the list-backed finder stub, not over FindInPaths. Open: a memfs-backed FindInPaths history for C12, and is_dir / exists of find_paths answered from the glob universe (until then a correct is_dir pre-check in FindInPaths would be reported by C12-paths - a possible false alarm, see DESIGN 0.3). The first run reported an AttributeError instead (the stub lacked glob.has_magic); the stub now carries the real has_magic / escape and an iglob.",
 "C03-m11": "not run against the check as it stood; by reading, no obligation reached a shot file without node level (miss).",
 "C03-m12": "not run against the check as it stood; by reading, every C03 obligation excluded '?' (miss).",
}
for name, (change, needs, caught, missed, added, how) in sorted(T.items()):
    d = os.path.join(root, name)
    pid = name.split("-")[0]
    meta = {"property": pid, "change": change, "needs_to_manifest": needs, "confirmed": open(os.path.join(d, "confirm.txt")).read().strip(),
            "ran": [f"tools/confirm_mutant.sh seeded/{name}",
                    f"tools/try_mutant_wt.sh seeded/{name}/patch.diff {pid} --jobs 8" + ("" if how.startswith("full") else " --only '<the families named in caught_by>|selftest'") + f"  ({how}; patch applied in a scratch worktree of /repo, check through VF_REPO) -> exit=1, VIOLATION"],
            "caught_by": caught, "missed_at_first": missed, "origin": ORIGIN}
    if added: meta["obligations_added_for_it"] = added
    if name in NOTE: meta["note"] = NOTE[name]
    json.dump(meta, open(os.path.join(d, "meta.json"), "w"), indent=1, ensure_ascii=False)
    print(name, "ok")
