#!/bin/bash
# usage: tools/confirm_mutant.sh seeded/<name>   -- confirms in a scratch worktree: demo passes clean, patch applies,
# the 44 stable tests still pass with the patch, demo fails with the patch.  Writes seeded/<name>/confirm.txt
set -u
D="$(cd "$1" && pwd)"; N=$(basename "$D")
W=/tmp/cm_$N
git -C /repo worktree add -q --detach "$W" HEAD || exit 3
cd "$W"
cp "$D/demo.py" ./vf_demo_tmp.py
/venv/bin/python -m pytest -q -p no:cacheprovider --timeout=900 --continue-on-collection-errors >/dev/null 2>&1  # generates example tree
/venv/bin/python vf_demo_tmp.py >/tmp/cm_$N.clean.log 2>&1; c=$?
git apply "$D/patch.diff" || { echo "$N: patch does not apply"; git -C /repo worktree remove --force "$W"; exit 4; }
t=$(/venv/bin/python -m pytest -q -p no:cacheprovider --timeout=900 --continue-on-collection-errors --deselect vf_demo_tmp.py 2>&1 | tail -1)
/venv/bin/python vf_demo_tmp.py >/tmp/cm_$N.mut.log 2>&1; m=$?
echo "$N: demo clean exit=$c ; with patch: tests [$t] demo exit=$m" | tee "$D/confirm.txt"
tail -3 /tmp/cm_$N.mut.log | cut -c1-300 >> "$D/confirm.txt"
cd /; git -C /repo worktree remove --force "$W"; rm -f /tmp/cm_$N.*.log
