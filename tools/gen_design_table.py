#!/usr/bin/env python3
"""Rewrites the seeded-change table of DESIGN.md (between the table header and the next '###') from seeded/*/meta.json."""
import glob, json, os, re
V = os.path.dirname(os.path.dirname(os.path.abspath(__file__)))
rows = []
for f in sorted(glob.glob(os.path.join(V, "seeded", "*", "meta.json"))):
    m = json.load(open(f)); name = os.path.basename(os.path.dirname(f))
    esc = lambda s: s.replace("|", "\\|")
    rows.append("| %s | %s | %s | %s |" % (name, esc(m["change"]), esc(m["needs_to_manifest"]), esc(m["caught_by"] + ((" -- " + m["note"]) if m.get("note") else ""))))
d = open(os.path.join(V, "DESIGN.md")).read()
head = "| id | change | needs, to manifest | caught by |\n|---|---|---|---|\n"
i = d.index(head) + len(head)
j = d.index("\n### 0.6", i)
d = d[:i] + "\n".join(rows) + "\n" + d[j:]
open(os.path.join(V, "DESIGN.md"), "w").write(d)
print(len(rows), "rows")
