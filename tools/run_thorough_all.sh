#!/bin/bash
# runs every thorough check once, sequentially, and prints one summary line each (used to size the thorough tier)
cd "$(dirname "$0")/.."
for p in ${@:-C12 C11 C09 C10 C07 C16 C17 C06 C14 C05 C02 C19 C15 C03 C08 C01 C18 C13 C04 C20}; do
  s=$(date +%s)
  ./vf check $p --tier thorough --jobs ${VF_JOBS:-8} > /tmp/thorough_$p.log 2>&1
  rc=$?
  e=$(date +%s)
  echo "$p rc=$rc wall=$((e-s))s $(grep -E "^$p \[" /tmp/thorough_$p.log)"
  grep -E "VIOLATION|harness error" /tmp/thorough_$p.log | head -3
done
