#!/bin/bash
# usage: tools/try_mutant.sh <patch.diff> <PROPERTY> [extra vf args]   -- applies the patch to /repo, runs the check, reverts.
set -u
P="$(realpath "$1")"; ID="$2"; shift 2
cd /repo || exit 3
git diff --quiet || { echo "/repo not clean"; exit 3; }
git apply --check "$P" 2>/dev/null || { echo "PATCH DOES NOT APPLY: $P"; exit 4; }
git apply "$P"
cd /verif
./vf check "$ID" "$@" > /tmp/mut_$ID.$$.log 2>&1
rc=$?
cd /repo && git checkout -- . 
echo "exit=$rc  $(grep -c '^VIOLATION' /tmp/mut_$ID.$$.log) violation lines"
grep -E "^VIOLATION|violated:|^C[0-9]+ \[" /tmp/mut_$ID.$$.log | cut -c1-400 | head -8
rm -f /tmp/mut_$ID.$$.log
exit $rc
