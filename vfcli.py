"""
vf -- entry point of the verification machinery.

  ./vf check <ID> [--tier quick|thorough] [--only REGEX] [--jobs N]
  ./vf replay <file>
  ./vf list <ID> [--tier ...]

Exit codes: 0 = property held on everything explored (inconclusive obligations are listed, never counted
as success of that obligation); 1 = reproduced violation (a line `VIOLATION property=<id> replay=<path>`);
2 = infrastructure failure (never together with a VIOLATION line).
"""
from __future__ import annotations

import argparse
import importlib
import json
import os
import re
import subprocess
import sys
import time
from typing import Any, Dict, List

VERIF = os.path.dirname(os.path.abspath(__file__))
sys.path.insert(0, VERIF)

from xhair import runner  # noqa: E402
from xhair.runner import Obl, Result  # noqa: E402


def load_known() -> List[Dict[str, Any]]:
    p = os.path.join(VERIF, "known_findings.json")
    if not os.path.exists(p):
        return []
    return json.load(open(p)).get("findings", [])


def match_known(known, prop: str, res: Result):
    """An *open* finding matches when property, obligation family and failure signature agree."""
    rp = res.replay or {}
    for k in known:
        if k.get("property") != prop or k.get("status") != "open":
            continue
        m = k.get("match", {})
        if "family" in m and not re.search(m["family"], res.obl.family or res.obl.name):
            continue
        if "exception" in m and m["exception"] != rp.get("exception"):
            continue
        if "site" in m and m["site"] != rp.get("site"):
            continue
        if "tag" in m and m["tag"] not in (rp.get("tags") or []):
            continue
        if "args_regex" in m and not re.search(m["args_regex"], json.dumps(res.args, sort_keys=True)):
            continue
        return k
    return None


def run_z(zobls, jobs: int):
    """Engine Z obligations: each runs `python -m tplz3.run` in its own process under a hard kill."""
    import concurrent.futures as cf

    def one(z):
        t0 = time.time()
        env = dict(os.environ)
        env["PYTHONPATH"] = VERIF
        env["PYTHONHASHSEED"] = "0"
        env["PYTHONDONTWRITEBYTECODE"] = "1"
        env.update(z.get("env", {}))
        cmd = [runner.PY, "-m", "tplz3.run", z["module"], z["func"], json.dumps(z.get("args", {}))]
        try:
            p = subprocess.run(cmd, env=env, cwd=VERIF, capture_output=True, text=True, timeout=z.get("timeout", 300))
        except subprocess.TimeoutExpired as e:
            so = e.stdout.decode("utf8", "replace") if isinstance(e.stdout, bytes) else (e.stdout or "")
            viol = [json.loads(ln[11:]) for ln in so.splitlines() if ln.startswith("ZVIOLATION ")]
            return dict(z, verdict="inconclusive", reason="hard timeout (solver did not return)", violations=viol, wall_s=time.time() - t0)
        out = None
        for ln in p.stdout.splitlines():
            if ln.startswith("ZRESULT "):
                out = json.loads(ln[8:])
        if out is None:
            return dict(z, verdict="error", reason="no ZRESULT", log=(p.stdout + p.stderr)[-3000:], wall_s=time.time() - t0)
        out.update({k: v for k, v in z.items() if k not in out})
        out["wall_s"] = time.time() - t0
        return out

    with cf.ThreadPoolExecutor(max_workers=jobs) as ex:
        return list(ex.map(one, zobls))


FALLBACK_NOTE = ""


def selftest_obligations():
    M = "xhair.obl.selftest"
    o = [Obl(f"engine-selftest-sid[{g}]", M, "pinned_sid", env={"VF_GROUP": str(g), "VF_CONF": "miniA"}, timeout=150, family="engine-selftest", bound="6 pinned strings: the symbolic run must equal CPython") for g in range(3)]
    o.append(Obl("engine-selftest-regex", M, "pinned_regex", env={"VF_CONF": "miniA"}, timeout=150, family="engine-selftest", bound="E1/E2: pinned strings through a resolva-style regex"))
    o.append(Obl("engine-selftest-concat", M, "pinned_concat", env={"VF_CONF": "miniA"}, timeout=150, family="engine-selftest", bound="E10"))
    o.append(Obl("engine-selftest-dictkey", M, "pinned_dictkey", env={"VF_CONF": "miniA"}, timeout=150, family="engine-selftest", bound="E9"))
    o.append(Obl("engine-selftest-normpath", M, "pinned_normpath", env={"VF_CONF": "miniA"}, timeout=150, family="engine-selftest", bound="E11: 14 pinned strings"))
    return o


def cmd_check(args) -> int:
    prop = args.id
    tier = args.tier or os.environ.get("VERIF_TIER") or "quick"
    seed = int(os.environ.get("VERIF_SEED", "0") or 0)
    t0 = time.time()
    try:
        mod = importlib.import_module(f"checks.{prop.lower()}")
    except Exception as e:
        print(f"harness error: cannot import checks.{prop.lower()}: {e!r}")
        return 2
    # the deeper obligation set of a property is used only once it has been run end-to-end on the unchanged tree
    # (thorough_validated.json); otherwise the thorough tier runs the quick set with doubled per-obligation budgets
    build_tier = tier
    if tier == "thorough":
        try:
            validated = set(json.load(open(os.path.join(VERIF, "thorough_validated.json"))))
        except Exception:
            validated = None
        if validated is not None and prop not in validated:
            build_tier = "quick"
    xobls: List[Obl] = mod.x_obligations(build_tier) if hasattr(mod, "x_obligations") else []
    zobls = mod.z_obligations(build_tier) if hasattr(mod, "z_obligations") else []
    if build_tier != tier:
        for o in xobls:
            o.timeout = int(o.timeout * 2)
        global FALLBACK_NOTE
        FALLBACK_NOTE = f"thorough tier of {prop}: the deeper obligation set was not validated end-to-end on the unchanged tree in the time available; this run used the quick obligation set with doubled per-obligation budgets"
        print("note: " + FALLBACK_NOTE)
    # the pinned differential self-test of the engine and its corrections runs with every check
    if xobls and not any(o.family == "engine-selftest" for o in xobls):
        xobls = selftest_obligations() + xobls
    if args.only:
        xobls = [o for o in xobls if re.search(args.only, o.name)]
        zobls = [z for z in zobls if re.search(args.only, z["name"])]
    jobs = args.jobs or min(16, os.cpu_count() or 4)
    # engine Z's second solver: how many decided queries per obligation are re-asked to cvc5, and for how long each
    os.environ.setdefault("VF_Z_CROSS", "4" if tier == "quick" else "10")
    os.environ.setdefault("VF_Z_CROSS_MS", "8000" if tier == "quick" else "30000")
    if tier == "thorough" and xobls:
        # size the thorough tier by total wall time: if every obligation ran into its timeout the run would take
        # sum(timeouts)/jobs; scale the per-obligation budgets down (never below the quick budget) to fit VF_THOROUGH_BUDGET
        budget = int(os.environ.get("VF_THOROUGH_BUDGET", "900"))
        total = sum(o.timeout for o in xobls)
        if total / jobs > budget:
            scale = budget * jobs / total
            for o in xobls:
                o.timeout = max(170, int(o.timeout * scale))

    def progress(r: Result):
        if args.verbose:
            print(f"  [{r.verdict:12}] {r.obl.name}  {r.wall_s:.0f}s paths={r.paths} {r.reason or r.message[:100]}", flush=True)

    # Z and X concurrently
    import concurrent.futures as _cf
    with _cf.ThreadPoolExecutor(max_workers=2) as _ex:
        _zf = _ex.submit(run_z, zobls, max(2, jobs // 4)) if zobls else None
        xres = runner.run_all(xobls, jobs=jobs, progress=progress)
        zres = _zf.result() if _zf else []

    known = load_known()
    violations = []
    known_hits = []
    disagreements = []
    harness_errors = []
    idx = 0
    for r in xres:
        if r.verdict == "refuted":
            idx += 1
            runner.replay(r, prop, idx)
            rp = r.replay or {}
            if "error" in rp:
                r.verdict = "inconclusive"
                r.reason = f"replay failed: {rp}"
                harness_errors.append(r.obl.name)
                continue
            reproduced = rp.get("exit") == 1 and not rp.get("holds", True)
            if r.obl.expect == "refute":
                # reachability twin: refutation is the expected outcome (and it must replay, too)
                if not reproduced:
                    disagreements.append(r.obl.name)
                    r.verdict = "inconclusive"
                    r.reason = "twin counterexample did not reproduce natively"
                continue
            if not reproduced:
                disagreements.append(r.obl.name)
                r.verdict = "inconclusive"
                r.reason = "engine disagreement: counterexample does not reproduce on the real code"
                continue
            k = match_known(known, prop, r)
            if k:
                known_hits.append((k, r))
            else:
                violations.append(r)
    zviol = []
    for z in zres:
        if z.get("verdict") == "error":
            harness_errors.append(z["name"])
        if z.get("verdict") == "solver-disagreement":
            # z3 and cvc5 gave opposite answers on the same SMT-LIB text: the obligation decides nothing
            # (witnesses that replay on the real code below are still violations)
            disagreements.append(z["name"] + " (z3 vs cvc5: " + json.dumps((z.get("crosscheck") or {}).get("disagree", [])[:2]) + ")")
        for w in z.get("violations", []):
            # each w: {"what":..., "witness":..., "replay": {"module","func","args","env"}}
            idx += 1
            fake = Result(obl=Obl(name=z["name"], module=w["replay"]["module"], func=w["replay"]["func"],
                                  env=w["replay"].get("env", {}), family=z.get("family", z["name"])), args=w["replay"]["args"], verdict="refuted")
            runner.replay(fake, prop, idx)
            rp = fake.replay or {}
            reproduced = rp.get("exit") == 1 and not rp.get("holds", True)
            w["reproduced"] = reproduced
            w["replay_file"] = fake.replay_file
            if not reproduced:
                disagreements.append(z["name"])
                continue
            k = match_known(known, prop, fake)
            if k:
                known_hits.append((k, fake))
            else:
                fake.message = w.get("what", "")
                zviol.append(fake)

    # engine self-test: any failure means nothing this run reports can be trusted -> infrastructure failure
    selftest_bad = [r.obl.name for r in xres if r.obl.family == "engine-selftest" and r.verdict != "confirmed"]

    # vacuity: every twin must be refuted
    twins_bad = [r.obl.name for r in xres if r.obl.expect == "refute" and r.verdict != "refuted"]

    ev = build_evidence(prop, tier, seed, mod, xres, zres, violations + zviol, known_hits, disagreements, twins_bad, time.time() - t0)
    os.makedirs(os.path.join(VERIF, "evidence"), exist_ok=True)
    with open(os.path.join(VERIF, "evidence", f"{prop}.json"), "w") as f:
        json.dump(ev, f, indent=1, default=str)

    # report
    nconf = sum(1 for r in xres if r.verdict == "confirmed" and r.obl.expect == "confirm")
    ninc = [r for r in xres if r.verdict == "inconclusive" and r.obl.expect != "find"]
    print(f"{prop} [{tier}] X: {nconf} confirmed, {len(ninc)} inconclusive, "
          f"{sum(1 for r in xres if r.obl.expect == 'refute' and r.verdict == 'refuted')} twins refuted (expected); "
          f"Z: {sum(z.get('discharged', 0) for z in zres)}/{sum(z.get('queries_total', 0) for z in zres)} queries discharged; "
          f"{time.time() - t0:.0f}s")
    for r in ninc:
        print(f"  inconclusive: {r.obl.name}: {r.reason or r.message}")
    for z in zres:
        if z.get("verdict") not in ("confirmed",):
            print(f"  Z {z['name']}: {z.get('verdict')} {z.get('reason', '')}")
            if z.get("verdict") == "error" and args.verbose:
                print(z.get("log", ""))
    if twins_bad:
        print(f"  vacuity guard: twins not refuted: {twins_bad} (their families count as inconclusive)")
    if selftest_bad:
        print(f"harness error: engine self-test failed ({selftest_bad}); verdicts of this run are not trustworthy (exit 2, no VIOLATION line is printed)")
        return 2
    seen = set()
    for k, r in known_hits:
        if k["id"] in seen:
            continue
        seen.add(k["id"])
        print(f"KNOWN-FINDING: property={prop} {k['what']}")
    for r in violations + zviol:
        print(f"  violated: {r.obl.name}: {r.message[:300]} args={r.args} replay={r.replay}")
        print(f"VIOLATION property={prop} replay={r.replay_file}")
    if violations or zviol:
        return 1
    if harness_errors and not (nconf or zres):
        return 2
    return 0


def build_evidence(prop, tier, seed, mod, xres, zres, violations, known_hits, disagreements, twins_bad, wall):
    meta = getattr(mod, "META", {})
    confirmed = [r for r in xres if r.verdict == "confirmed" and r.obl.expect == "confirm"]
    paths = sum(r.paths for r in xres)
    xq = sum(r.solver_queries for r in xres)
    xs = sum(r.solver_s for r in xres)
    zq = sum(z.get("queries_total", 0) for z in zres)
    zd = sum(z.get("discharged", 0) for z in zres)
    zs = sum(z.get("solver_s", 0.0) for z in zres)
    samples = []
    for r in xres[:60]:
        samples.append({"engine": "X", "obligation": r.obl.name, "function": f"{r.obl.module}.{r.obl.func}",
                        "bound": r.obl.bound, "expect": r.obl.expect, "verdict": r.verdict, "message": (r.reason or r.message)[:200],
                        "counterexample": r.args, "replay": r.replay, "paths": r.paths,
                        "solver_queries": r.solver_queries, "solver_s": round(r.solver_s, 2), "wall_s": round(r.wall_s, 1)})
    for z in zres:
        samples.append({"engine": "Z", "obligation": z["name"], "verdict": z.get("verdict"), "queries": z.get("queries_total"),
                        "discharged": z.get("discharged"), "solver_s": z.get("solver_s"), "bound": z.get("bound"),
                        "witnesses": z.get("samples", [])[:5], "violations": z.get("violations", [])[:5],
                        "inconclusive": z.get("inconclusive", [])[:5], "crosscheck": z.get("crosscheck")})
    nontrivial = len({r.obl.name for r in confirmed}) + sum(z.get("discharged", 0) for z in zres)
    ev = {
        "property_id": prop,
        "tier": tier,
        "seed": seed,
        "level": "other",
        "coverage": {
            "explanation": meta.get("explanation", "") or (
                "bounded symbolic execution of the real spil functions (CrossHair + z3): every path inside the stated "
                "bounds exhausted for each 'confirmed' obligation; z3 regular-language queries over the live configuration objects"),
            "evaluations": paths + xq + zq,
            "distinct_nontrivial": nontrivial,
            "rule": "evaluations = symbolic paths explored + SMT queries issued (both engines), measured by wrappers around "
                    "StateSpace.__init__ and z3.Solver.check; distinct_nontrivial = X obligations confirmed over all paths "
                    "(twins and inconclusive ones excluded) + Z queries answered unsat/sat conclusively",
            "samples": samples,
            "functions_encoded": meta.get("functions", []),
            "bounds": meta.get("bounds", {}).get(tier, meta.get("bounds", "")),
            "x_obligations": len(xres),
            "x_confirmed": len(confirmed),
            "x_inconclusive": [{"name": r.obl.name, "why": r.reason or r.message} for r in xres if r.verdict == "inconclusive"],
            "x_twins_refuted": sum(1 for r in xres if r.obl.expect == "refute" and r.verdict == "refuted"),
            "vacuity_failures": twins_bad,
            "paths_explored": paths,
            "solver_queries": xq + zq,
            "solver_seconds": round(xs + zs, 2),
            "z_queries": zq,
            "z_discharged": zd,
            "engine_disagreements": disagreements,
            "known_findings_hit": sorted({k["id"] for k, _ in known_hits}),
            "outside_claim": list(meta.get("outside", [])) + ([FALLBACK_NOTE] if FALLBACK_NOTE else []),
            "stubs": meta.get("stubs", []),
            "exhaustive": False,
        },
        "assumptions": meta.get("assumptions", []),
        "wall_s": round(wall, 1),
        "violations": len(violations),
    }
    return ev


def cmd_replay(args) -> int:
    p = subprocess.run([runner.NATIVE_PY, args.file])
    return p.returncode


def cmd_list(args) -> int:
    mod = importlib.import_module(f"checks.{args.id.lower()}")
    tier = args.tier or "quick"
    for o in (mod.x_obligations(tier) if hasattr(mod, "x_obligations") else []):
        print("X", o.name, o.bound, o.timeout)
    for z in (mod.z_obligations(tier) if hasattr(mod, "z_obligations") else []):
        print("Z", z["name"])
    return 0


def main(argv=None) -> int:
    ap = argparse.ArgumentParser(prog="vf")
    sub = ap.add_subparsers(dest="cmd", required=True)
    c = sub.add_parser("check")
    c.add_argument("id")
    c.add_argument("--tier", choices=["quick", "thorough"])
    c.add_argument("--only")
    c.add_argument("--jobs", type=int)
    c.add_argument("-v", "--verbose", action="store_true")
    r = sub.add_parser("replay")
    r.add_argument("file")
    l = sub.add_parser("list")
    l.add_argument("id")
    l.add_argument("--tier")
    args = ap.parse_args(argv)
    if args.cmd == "check":
        return cmd_check(args)
    if args.cmd == "replay":
        return cmd_replay(args)
    return cmd_list(args)


if __name__ == "__main__":
    sys.exit(main())
