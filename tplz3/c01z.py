"""Engine Z obligations for C01 (and shared by C03/C20): template languages of the live configuration."""
from __future__ import annotations

import os
import random
import re
from typing import Dict, List

import z3

from tplz3 import live, sre2z3
from tplz3.zutil import Tally, X, bounded, check, validate_translation, EDGE_STRINGS
from oracles import typing_ref, extrapolate_ref

NOSLASH = None


def _noslash():
    return z3.Star(sre2z3._ranges_to_re(sre2z3._complement([(47, 47)])))


def corpus(n=120) -> List[str]:
    seed = int(os.environ.get("VERIF_SEED", "0") or 0)
    p = os.path.join(os.environ.get("VF_REPO", "/repo"), "spil_hamlet_conf", "data", "testing", "hamlet.sids.txt")
    lines = []
    if os.path.exists(p):
        lines = [l.rstrip("\n") for l in open(p) if l.strip()]
        random.Random(seed).shuffle(lines)
        lines = lines[:n]
    return lines + EDGE_STRINGS


def oracle_lang(template: str):
    segs = []
    for key, expr in typing_ref.split_template(template):
        rx = re.compile(expr)
        segs.append(z3.Intersect(sre2z3.to_z3(rx, "full"), _noslash()))
    out = segs[0]
    for s in segs[1:]:
        out = z3.Concat(out, z3.Re(z3.StringVal("/")), s)
    return out


def strict(rx):
    """Language the *code* accepts for one template: the regex with '$' read as end-of-string, because
    sid_to_dict only accepts a template when the parsed data formats back to the whole string."""
    body = sre2z3.to_z3(rx, "search")
    # to_z3 appended Option("\n") for '$'; rebuild without it
    return _strip_dollar(rx)


def _strip_dollar(rx):
    pat = rx.pattern
    assert pat.endswith("$") and not pat.endswith("\\$")
    return sre2z3.to_z3(re.compile(pat[:-1] + r"\Z", rx.flags), "search")


def lang(conf: str = "shipped") -> Dict:
    sconf, Resolver, raw = live.load(conf)
    r = Resolver.get("sid")
    t = Tally()
    strings = corpus()
    regs = r.get_regexes()
    enc_py = {T: sre2z3.to_z3(rx, "search") for T, rx in regs.items()}
    bad = validate_translation([(rx, enc_py[T], strings) for T, rx in regs.items()])
    if bad:
        return {"verdict": "error", "reason": bad}
    x = X()
    for T, rx in regs.items():
        real = _strip_dollar(rx)
        ora = oracle_lang(sconf.sid_templates[T])
        for what, cs in ((f"{T}: accepted by code but not by the per-segment oracle", [z3.InRe(x, real), z3.Not(z3.InRe(x, ora))]),
                         (f"{T}: accepted by the oracle but not by the code's regex", [z3.InRe(x, ora), z3.Not(z3.InRe(x, real))])):
            res, w = check(t, cs + [bounded(x)], what, x=x)
            if res == "sat":
                t.violations.append({"what": what, "witness": w,
                                     "replay": {"module": "tplz3.replays", "func": "typed_like_oracle", "args": {"s": w, "forced": T}, "env": {"VF_CONF": conf}}})
        t.samples.append({"type": T, "regex": rx.pattern[:120]})
    return t.result(f"C01-lang[{conf}]", family="C01-lang", translator_pairs_validated=len(strings) * len(regs))


def order(conf: str = "shipped") -> Dict:
    sconf, Resolver, raw = live.load(conf)
    r = Resolver.get("sid")
    t = Tally()
    # (a) live template table == reference extrapolation + reference pattern replacement of the raw module data
    ref = extrapolate_ref.pattern_replace_ref(
        extrapolate_ref.extrapolate_ref(dict(raw.sid_templates), list(raw.to_extrapolate)), raw.key_patterns)
    t.queries += 1
    if list(ref.items()) != list(sconf.sid_templates.items()) or list(r.get_labels()) != list(ref.keys()):
        t.violations.append({"what": "live sid_templates differ from the reference extrapolation / pattern replacement of spil_sid_conf",
                             "witness": {"live": list(sconf.sid_templates.keys()), "ref": list(ref.keys())},
                             "replay": {"module": "tplz3.replays", "func": "live_templates_equal_ref", "args": {}, "env": {"VF_CONF": conf}}})
    else:
        t.discharged += 1
    # (b) for overlapping template languages, the first one in configuration order wins in the real code.
    #     Overlap is decided segment-wise on the oracle languages (C01-lang shows they equal the real regexes):
    #     two '/'-free segment chains of equal length overlap iff every pair of segments does.
    names = list(sconf.sid_templates.keys())
    segs = {}
    for T in names:
        segs[T] = [z3.Intersect(sre2z3.to_z3(re.compile(e), "full"), _noslash()) for _, e in typing_ref.split_template(sconf.sid_templates[T])]
    x = X()
    from spil import Sid
    exprs = {T: [e for _, e in typing_ref.split_template(sconf.sid_templates[T])] for T in names}
    memo = {}
    for i, a in enumerate(names):
        for b in names[i + 1:]:
            if len(segs[a]) != len(segs[b]):
                continue
            parts = []
            for k, (sa, sb) in enumerate(zip(segs[a], segs[b])):
                mk = (exprs[a][k], exprs[b][k])
                if mk not in memo:
                    memo[mk] = check(t, [z3.InRe(x, sa), z3.InRe(x, sb), bounded(x)], f"overlap {a} / {b}", x=x)
                res, w = memo[mk]
                if res != "sat":
                    parts = None
                    break
                parts.append(w)
            if not parts:
                continue
            w = "/".join(parts)
            exp, _ = typing_ref.type_string(w)
            got = Sid(w).type
            t.samples.append({"overlap": [a, b], "witness": w, "first_by_oracle": exp, "real": got})
            if got != exp:
                t.violations.append({"what": f"overlapping templates {a}/{b}: Sid({w!r}).type = {got!r}, first matching template is {exp!r}", "witness": w,
                                     "replay": {"module": "tplz3.replays", "func": "typed_like_oracle", "args": {"s": w, "forced": None}, "env": {"VF_CONF": conf}}})
    return t.result(f"C01-order[{conf}]", family="C01-order")


def live_equals_ref(conf: str = "shipped") -> Dict:
    """C19-live: the live template table equals the reference extrapolation + pattern replacement of the raw module data."""
    sconf, Resolver, raw = live.load(conf)
    r = Resolver.get("sid")
    t = Tally()
    ref = extrapolate_ref.pattern_replace_ref(
        extrapolate_ref.extrapolate_ref(dict(raw.sid_templates), list(raw.to_extrapolate)), raw.key_patterns)
    t.queries += 1
    if list(ref.items()) != list(sconf.sid_templates.items()) or list(r.get_labels()) != list(ref.keys()):
        t.violations.append({"what": "live sid_templates differ from the reference extrapolation / pattern replacement of spil_sid_conf",
                             "witness": {"live": list(sconf.sid_templates.keys()), "ref": list(ref.keys())},
                             "replay": {"module": "tplz3.replays", "func": "live_templates_equal_ref", "args": {}, "env": {"VF_CONF": conf}}})
    else:
        t.discharged += 1
        t.samples.append({"types": list(ref.keys())})
    return t.result(f"C19-live[{conf}]", family="C19-live", bound="concrete comparison of the live table (no solver query)")


def prefix(conf: str = "shipped") -> Dict:
    """C03-prefix: every '/'-prefix of every template is owned by a type with exactly that key list whose segment
    patterns accept everything the longer template's segments accept (so get_as / parent of a typed Sid is typed with
    exactly the prefix fields); templates with equal key sets list their keys in the same order (C02-keys)."""
    sconf, Resolver, raw = live.load(conf)
    t = Tally()
    x = X()
    names = list(sconf.sid_templates.keys())
    segs = {T: typing_ref.split_template(sconf.sid_templates[T]) for T in names}
    memo = {}

    def included(ea: str, eb: str) -> str:
        if ea == eb:
            return "unsat"
        if (ea, eb) not in memo:
            la = z3.Intersect(sre2z3.to_z3(re.compile(ea), "full"), _noslash())
            lb = z3.Intersect(sre2z3.to_z3(re.compile(eb), "full"), _noslash())
            memo[(ea, eb)] = check(t, [z3.InRe(x, la), z3.Not(z3.InRe(x, lb)), bounded(x)], f"{ea} subset of {eb}", x=x)
        return memo[(ea, eb)][0]

    for T in names:
        keys = [k for k, _ in segs[T]]
        for j in range(1, len(keys)):
            cands = [U for U in names if [k for k, _ in segs[U]] == keys[:j]]
            t.queries += 1
            ok = False
            for U in cands:
                if all(included(segs[T][i][1], segs[U][i][1]) == "unsat" for i in range(j)):
                    ok = True
                    break
            if ok:
                t.discharged += 1
            else:
                # witness: a typed string of T whose prefix is untyped
                from spil import Sid
                w = None
                for cand in _sample_strings(segs[T]):
                    s = Sid(T + ":" + cand)
                    if s and not s.get_as(keys[j - 1]):
                        w = cand
                        break
                t.violations.append({"what": f"no type owns the {j}-key prefix {keys[:j]} of {T} (candidates {cands})", "witness": w,
                                     "replay": {"module": "tplz3.replays", "func": "prefix_typed", "args": {"type": T, "s": w or "", "key": keys[j - 1]}, "env": {"VF_CONF": conf}}})
    # C02-keys: equal key sets -> equal key order
    for i, a in enumerate(names):
        for b in names[i + 1:]:
            ka, kb = [k for k, _ in segs[a]], [k for k, _ in segs[b]]
            if set(ka) == set(kb):
                t.queries += 1
                if ka == kb:
                    t.discharged += 1
                else:
                    t.violations.append({"what": f"templates {a} and {b} have the same key set in different orders", "witness": [ka, kb],
                                         "replay": {"module": "tplz3.replays", "func": "always_false", "args": {"why": f"key order {a}/{b}"}, "env": {"VF_CONF": conf}}})
    return t.result(f"C03-prefix[{conf}]", family="C03-prefix")


def _sample_strings(seglist):
    """a few concrete strings of a template language (first alternative of each closed pattern, 'x' for free ones)."""
    outs = []
    for star in (False, True):
        parts = []
        for k, e in seglist:
            m = re.match(r"^\((.*)\)$", e)
            if m:
                alts = m.group(1).split("|")
                pick = alts[0]
                pick = re.sub(r"\\d", "1", pick).replace("\\*", "*").replace("\\>", ">")
                parts.append("*" if star else pick)
            else:
                parts.append("*" if star else "x")
        outs.append("/".join(parts))
    return outs
