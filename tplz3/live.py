"""Load spil natively with a chosen configuration and expose the live objects engine Z translates."""
from __future__ import annotations

import os
import sys

VERIF = os.path.dirname(os.path.dirname(os.path.abspath(__file__)))


def load(conf: str = "shipped"):
    os.environ["VF_NATIVE"] = "1"
    os.environ["VF_CONF"] = conf
    sys.path.insert(0, VERIF)
    from xhair import env

    env.setup(conf)
    import spil  # noqa
    from spil import conf as sconf
    from resolva import Resolver
    import importlib

    raw = importlib.import_module("spil_sid_conf")
    return sconf, Resolver, raw


def path_resolver(name: str):
    from spil.sid.pathops.pathconfig import get_path_config
    from resolva import Resolver

    pc = get_path_config(name)
    return pc, Resolver.get(pc.name)
