"""Concrete configuration-level obligations (no solver query): kept in engine Z's runner for uniform reporting."""
from __future__ import annotations

from typing import Dict

from tplz3 import live
from tplz3.zutil import Tally


def finder_instances(conf: str = "shipped") -> Dict:
    """FindInAll groups typed searches by Finder instance: sibling file types must get the same instance."""
    sconf, Resolver, raw = live.load(conf)
    from spil import Sid
    t = Tally()
    by_len = {}
    for T, tpl in sconf.sid_templates.items():
        by_len.setdefault((T.split(sconf.sidtype_keytype_sep)[0], tpl.count("/")), []).append(T)
    for (base, n), types in by_len.items():
        if len(types) < 2:
            continue
        t.queries += 1
        finders = [sconf.get_finder_for(Sid(T + ":" + "/".join(["*"] * (n + 1)))) for T in types]
        if any(f is not finders[0] for f in finders):
            t.violations.append({"what": f"sibling types {types} are served by different Finder instances: a '>' search over them returns one result per type",
                                 "witness": types, "replay": {"module": "tplz3.replays", "func": "same_finder_instance", "args": {"types": types, "n": n + 1}, "env": {"VF_CONF": conf}}})
        else:
            t.discharged += 1
            t.samples.append({"types": types, "finder": str(finders[0])[:60]})
    return t.result(f"C09-conf-finder-instances[{conf}]", family="C09-conf", bound="concrete check of the live data configuration")


def getter_instances(conf: str = "shipped") -> Dict:
    """GetFromAll groups typed searches by Getter instance: sibling file types must get the same Getter instance."""
    sconf, Resolver, raw = live.load(conf)
    from spil import Sid
    t = Tally()
    by_len = {}
    for T, tpl in sconf.sid_templates.items():
        by_len.setdefault((T.split(sconf.sidtype_keytype_sep)[0], tpl.count("/")), []).append(T)
    for (base, n), types in by_len.items():
        if len(types) < 2:
            continue
        t.queries += 1
        getters = [sconf.get_getter_for(Sid(T + ":" + "/".join(["*"] * (n + 1)))) for T in types]
        getters = [g for g in getters if g is not None]
        if any(g is not getters[0] for g in getters):
            t.violations.append({"what": f"sibling types {types} are served by different Getter instances: GetFromAll yields one 'last' record per type for a '>' search",
                                 "witness": types, "replay": {"module": "tplz3.replays", "func": "same_getter_instance", "args": {"types": types, "n": n + 1}, "env": {"VF_CONF": conf}}})
        else:
            t.discharged += 1
            t.samples.append({"types": types})
    return t.result(f"C16-conf-getter-instances[{conf}]", family="C16-conf", bound="concrete check of the live data configuration")
