"""Template tokenizer shared by engine Z and its native replays (no solver import: replays run under the plain interpreter)."""
from __future__ import annotations

import re
from typing import List, Tuple

# resolva's own placeholder syntax (resolva/template.py)
_PH = re.compile(r"{(?P<placeholder>.+?)(:(?P<expression>(\\}|.)+?))?}")
DEFAULT = "[^/]*"


def tokens(template: str) -> List[Tuple[str, str, str]]:
    """[('lit', text, ''), ('ph', key, expr), ...]"""
    out = []
    pos = 0
    for m in _PH.finditer(template):
        if m.start() > pos:
            out.append(("lit", template[pos:m.start()], ""))
        expr = m.group("expression")
        expr = DEFAULT if expr is None else expr.replace("\\{", "{").replace("\\}", "}")
        out.append(("ph", m.group("placeholder"), expr))
        pos = m.end()
    if pos < len(template):
        out.append(("lit", template[pos:], ""))
    return out
