"""Solver plumbing shared by engine-Z obligations: counted / timed checks, witness decoding, translator validation."""
from __future__ import annotations

import json
import os
import re
import subprocess
import sys
import time
from typing import Any, Dict, List, Optional

import z3

from tplz3 import sre2z3

MAXLEN = 256


class _VList(list):
    """violations are echoed as soon as they are found: a later solver query that hangs (z3 can ignore its
    timeout on regex queries) must not lose them -- the driver collects ZVIOLATION lines of a killed worker."""

    def append(self, v):
        import json
        import sys
        sys.stdout.write("\nZVIOLATION " + json.dumps(v, default=str) + "\n")
        sys.stdout.flush()
        super().append(v)


class Tally:
    def __init__(self):
        self.queries = 0
        self.discharged = 0
        self.solver_s = 0.0
        self.inconclusive: List[Dict[str, Any]] = []
        self.samples: List[Dict[str, Any]] = []
        self.violations: List[Dict[str, Any]] = _VList()
        self.by_cvc5 = 0                          # queries z3 left undecided and cvc5 decided
        self.kept: List[Dict[str, Any]] = []      # (what, z3 verdict, SMT-LIB text) of decided queries, for the second solver

    def cross_check(self) -> Dict[str, Any]:
        """'diff two solvers': a spread of the decided queries is re-asked to cvc5 (SMT-LIB text printed by z3), in a
        killable subprocess.  sat/unsat against unsat/sat is a solver disagreement; cvc5 unknown / timeout is only counted."""
        k = int(os.environ.get("VF_Z_CROSS", "6"))
        if not self.kept or k <= 0:
            return {"asked": 0}
        n = len(self.kept)
        picks = sorted({(i * (n - 1)) // max(1, k - 1) for i in range(min(k, n))})
        sample = [self.kept[i] for i in picks]
        per = int(os.environ.get("VF_Z_CROSS_MS", "15000"))
        t0 = time.perf_counter()
        try:
            p = subprocess.run([sys.executable, "-m", "tplz3.cross"], input=json.dumps({"per_ms": per, "queries": sample}),
                               capture_output=True, text=True, timeout=per / 1000.0 * len(sample) + 30,
                               cwd=os.path.dirname(os.path.dirname(os.path.abspath(__file__))))
            so = p.stdout
        except subprocess.TimeoutExpired as e:
            so = e.stdout.decode("utf8", "replace") if isinstance(e.stdout, bytes) else (e.stdout or "")
        try:
            answers = json.loads(so.strip().splitlines()[-1]) if so.strip() else None
            if answers is not None:
                answers += ["unknown"] * (len(sample) - len(answers))
        except ValueError:
            answers = None
        out = {"asked": len(sample), "solver": "cvc5 1.4.0 (strings-exp, tlimit-per %d ms)" % per, "agree": 0, "undecided": 0,
               "disagree": [], "wall_s": round(time.perf_counter() - t0, 2)}
        if answers is None:
            out["undecided"] = len(sample)
            return out
        for q, a in zip(sample, answers):
            if a in ("sat", "unsat"):
                if a == q["z3"]:
                    out["agree"] += 1
                else:
                    out["disagree"].append({"what": q["what"], "z3": q["z3"], "cvc5": a})
            else:
                out["undecided"] += 1
        return out

    def result(self, name: str, bound: str = "", **extra) -> Dict[str, Any]:
        verdict = "confirmed"
        cross = self.cross_check()
        if self.violations:
            verdict = "refuted"
        elif self.inconclusive:
            verdict = "inconclusive"
        if cross.get("disagree"):
            # one of the two solvers is wrong: nothing this obligation says is believed
            verdict = "solver-disagreement"
        extra = dict(extra, crosscheck=cross, decided_by_cvc5=self.by_cvc5)
        d = dict(name=name, verdict=verdict, queries_total=self.queries, discharged=self.discharged,
                 solver_s=round(self.solver_s, 3), inconclusive=self.inconclusive[:20], samples=self.samples[:12],
                 violations=list(self.violations[:20]), bound=bound or f"|x| <= {MAXLEN}, code points <= U+2FFFF")
        d.update(extra)
        return d


_ESC = re.compile(r"\\u\{([0-9a-fA-F]+)\}")


def decode(zs: str) -> str:
    return _ESC.sub(lambda m: chr(int(m.group(1), 16)), zs)


def check(tally: Tally, constraints, what: str, timeout_ms: int = 20000, x=None):
    """Returns ('unsat', None) | ('sat', witness str or model) | ('unknown', None)."""
    s = z3.Solver()
    s.set("timeout", timeout_ms)
    for c in constraints:
        s.add(c)
    t0 = time.perf_counter()
    r = str(s.check())
    tally.solver_s += time.perf_counter() - t0
    tally.queries += 1
    if r in ("sat", "unsat") and len(tally.kept) < 600:
        try:
            tally.kept.append({"what": what, "z3": r, "smt2": s.to_smt2()})
        except Exception:
            pass
    if r == "unsat":
        tally.discharged += 1
        return "unsat", None
    if r == "sat":
        tally.discharged += 1
        m = s.model()
        if x is not None:
            v = m.eval(x, model_completion=True)
            return "sat", decode(v.as_string())
        return "sat", m
    # portfolio: what z3 leaves undecided is put to cvc5 (same SMT-LIB text), in a killable subprocess
    ans = _cvc5_decide(s.to_smt2(), x)
    if ans[0] == "unsat":
        tally.discharged += 1
        tally.by_cvc5 += 1
        return "unsat", None
    if ans[0] == "sat" and x is not None and ans[1] is not None:
        tally.discharged += 1
        tally.by_cvc5 += 1
        return "sat", ans[1]
    tally.inconclusive.append({"what": what, "reason": s.reason_unknown(), "cvc5": ans[0]})
    return "unknown", None


_VAL = re.compile(r'^\(\(\S+ "(.*)"\)\)$', re.S)


def _cvc5_decide(text: str, x=None, per_ms: int = 60000):
    if os.environ.get("VF_Z_FALLBACK", "1") != "1":
        return ("off", None)
    q = {"smt2": text}
    if x is not None:
        q["model_of"] = str(x)
    try:
        p = subprocess.run([sys.executable, "-m", "tplz3.cross"], input=json.dumps({"per_ms": per_ms, "queries": [q]}), capture_output=True, text=True,
                           timeout=per_ms / 1000.0 + 20, cwd=os.path.dirname(os.path.dirname(os.path.abspath(__file__))))
        a = json.loads(p.stdout.strip().splitlines()[-1])[0]
    except Exception as e:
        return ("error: " + repr(e)[:100], None)
    if a == "unsat":
        return ("unsat", None)
    if a.startswith("sat"):
        m = _VAL.match(a[4:].strip()) if len(a) > 4 else None
        return ("sat", decode(m.group(1).replace('""', '"')) if m else None)
    return (a, None)


def X(name="x"):
    return z3.String(name)


def bounded(x):
    return z3.Length(x) <= MAXLEN


def validate_translation(pairs, mode="search") -> Optional[str]:
    """pairs: iterable of (pattern, z3re, [strings]).  Returns a description of the first mismatch or None."""
    for pat, rex, strings in pairs:
        for s in strings:
            if any(ord(c) > sre2z3.MAXCHAR for c in s):
                continue
            if mode == "search":
                real = bool(pat.search(s))
            elif mode == "match":
                real = bool(pat.match(s))
            else:
                real = bool(pat.fullmatch(s))
            enc = sre2z3.simplify_in(s, rex)
            if real != enc:
                return f"translator mismatch: pattern {pat.pattern!r} string {s!r}: real={real} encoding={enc}"
    return None


EDGE_STRINGS = ["", "\n", "*", ">", "*\n", "a\n", "/", "//", "a/", "/a", "a//b", "\x00", "é", "٣", "v٣", "a b", "a,b", "a?b", "a:b",
                "\\", "'", "[", "]", ".", "+", "-", "_", "h", "hamlet", "hamlet\n", "hamlet/a", "hamlet/a\n", "hamlet/s/sq001",
                "hamlet/s/sq00١", "hamlet/a/char/x\ny", "hamlet/*/**", "**", "h/a/x/v1/m", "h/a/x/v1/m\n"]
