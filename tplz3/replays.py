"""Native replay functions for engine-Z witnesses (run by the generic replay script in plain CPython)."""
from __future__ import annotations

from xhair import env
from xhair.obl_util import fail

env.setup()


def typed_like_oracle(s: str, forced=None) -> bool:
    from spil import Sid
    from oracles import typing_ref

    if forced:
        et, ef = typing_ref.type_string(s, forced=forced)
        sid = Sid(forced + ":" + s)
    else:
        et, ef = typing_ref.type_string(s)
        sid = Sid(s)
    if sid.type != et:
        return fail("type")
    if dict(sid.fields) != dict(ef) or list(sid.fields) != list(ef):
        return fail("fields")
    return True


def live_templates_equal_ref() -> bool:
    import importlib
    from spil import conf
    from oracles import extrapolate_ref

    raw = importlib.import_module("spil_sid_conf")
    ref = extrapolate_ref.pattern_replace_ref(
        extrapolate_ref.extrapolate_ref(dict(raw.sid_templates), list(raw.to_extrapolate)), raw.key_patterns)
    return list(ref.items()) == list(conf.sid_templates.items()) or fail("templates-differ")
