"""Native replay functions for engine-Z witnesses (run by the generic replay script in plain CPython)."""
from __future__ import annotations

from xhair import env
from xhair.obl_util import fail

env.setup()


def typed_like_oracle(s: str, forced=None) -> bool:
    from spil import Sid
    from oracles import typing_ref

    if forced:
        et, ef = typing_ref.type_string(s, forced=forced)
        sid = Sid(forced + ":" + s)
    else:
        et, ef = typing_ref.type_string(s)
        sid = Sid(s)
    if sid.type != et:
        return fail("type")
    if dict(sid.fields) != dict(ef) or list(sid.fields) != list(ef):
        return fail("fields")
    return True


def live_templates_equal_ref() -> bool:
    import importlib
    from spil import conf
    from oracles import extrapolate_ref

    raw = importlib.import_module("spil_sid_conf")
    ref = extrapolate_ref.pattern_replace_ref(
        extrapolate_ref.extrapolate_ref(dict(raw.sid_templates), list(raw.to_extrapolate)), raw.key_patterns)
    return list(ref.items()) == list(conf.sid_templates.items()) or fail("templates-differ")


def mapping_roundtrip(config: str, key: str, value: str) -> bool:
    """A Sid value of a mapped key must survive Sid -> path value -> Sid value."""
    from spil.sid.pathops.pathconfig import get_path_config
    from spil.util import utils

    pc = get_path_config(config)
    mp = pc.path_mapping.get(key)
    fwd = utils.get_key(mp, value, value)
    back = mp.get(fwd, fwd)
    if back != value:
        return fail("mapping-not-one-to-one")
    import re
    from tplz3.tpltokens import tokens
    exprs = {e for T, tpl in pc.path_templates.items() for (k, kk, e) in tokens(tpl) if k == "ph" and kk == key}
    if not any(re.fullmatch(e, fwd) for e in exprs):
        return fail("mapped-value-rejected-by-path-pattern")
    return True


def path_value_roundtrip(config: str, key: str, value: str) -> bool:
    """A path value of a mapped key that the path patterns accept, and whose Sid value the Sid patterns accept, must survive
    path value -> Sid value (path_to_dict) -> path value (dict_to_path): otherwise a typed Sid's path(c) is not the input path."""
    import re
    from spil import conf
    from spil.sid.pathops.pathconfig import get_path_config
    from spil.util import utils
    from tplz3.tpltokens import tokens

    pc = get_path_config(config)
    mp = pc.path_mapping.get(key)
    back = mp.get(value, value)
    fwd = utils.get_key(mp, back, back)
    pexprs = {e for T, tpl in pc.path_templates.items() for (k, kk, e) in tokens(tpl) if k == "ph" and kk == key}
    sexprs = {e for T, tpl in conf.sid_templates.items() for (k, kk, e) in tokens(tpl) if k == "ph" and kk == key}
    if any(re.fullmatch(e, value) for e in pexprs) and any(re.fullmatch(e, back) for e in sexprs) and fwd != value:
        return fail("path-value-does-not-map-back-to-itself")
    return True


def path_has_single_owner(config: str, path: str, a: str, b: str) -> bool:
    from spil.sid.pathops import fs_resolver

    ta, da = fs_resolver.path_to_dict.__wrapped__(path, a, config) if hasattr(fs_resolver.path_to_dict, "__wrapped__") else fs_resolver.path_to_dict(path, a, config)
    tb, db = fs_resolver.path_to_dict.__wrapped__(path, b, config) if hasattr(fs_resolver.path_to_dict, "__wrapped__") else fs_resolver.path_to_dict(path, b, config)
    if da and db:
        return fail("path-conforms-to-two-templates")
    return True


def path_single_config(path: str, a: str, b: str) -> bool:
    from spil import Sid

    if Sid(path=path, config=a) and Sid(path=path, config=b):
        return fail("path-resolves-under-two-configurations")
    return True


def configs_differ_only_by_root(first: str = "") -> bool:
    from spil import conf
    from spil.sid.pathops.pathconfig import get_path_config

    names = list(conf.path_configs.keys())
    if first:
        get_path_config(first)          # this configuration is loaded first
    ta = get_path_config(names[0]).path_templates
    tb = get_path_config(names[1]).path_templates
    if list(ta) != list(tb):
        return fail("template-names-differ")
    import os
    ra = os.path.commonprefix(list(ta.values()))
    rb = os.path.commonprefix(list(tb.values()))
    ra, rb = ra.split("{")[0], rb.split("{")[0]
    for k in ta:
        if ta[k][len(ra):] != tb[k][len(rb):]:
            return fail("tails-differ")
    return ra != rb or fail("same-root")


def always_false(why: str = "") -> bool:
    return fail(why or "z-finding")


def glob_literal(pat: str, s: str) -> bool:
    """re.match(glob2re(pat), s) must agree with the reference glob ('*' = run without '/', rest literal)."""
    import re
    from spil.sid.read.finders.find_list import glob2re
    from oracles import glob_ref

    try:
        real = bool(re.match(glob2re(pat), s))
    except re.error:
        return fail("glob2re-invalid-regex")
    # reference on the whole string: '/' is an ordinary literal for non-'*' characters
    import fnmatch  # noqa
    parts = pat.split("*")
    def ref(p, s):
        if len(p) == 1:
            return s == p[0]
        if not s.startswith(p[0]):
            return False
        rest = s[len(p[0]):]
        # '*' = [^/]*: try every split
        for i in range(len(rest) + 1):
            if "/" in rest[:i]:
                break
            if ref(p[1:], rest[i:]):
                return True
        return False
    return real == ref(parts, s) or fail("glob2re-vs-reference")


def same_finder_instance(types, n: int) -> bool:
    from spil import Sid, conf

    fs = [conf.get_finder_for(Sid(T + ":" + "/".join(["*"] * n))) for T in types]
    return all(f is fs[0] for f in fs) or fail("different-finder-instances-for-sibling-types")


def prefix_typed(type: str, s: str, key: str) -> bool:
    """get_as(key) of a typed Sid must be typed (C03)."""
    from spil import Sid

    sid = Sid(type + ":" + s)
    if not sid:
        return True
    return bool(sid.get_as(key)) or fail("prefix-of-typed-sid-is-untyped")


def same_getter_instance(types, n: int) -> bool:
    from spil import Sid, conf

    gs = [conf.get_getter_for(Sid(T + ":" + "/".join(["*"] * n))) for T in types]
    gs = [g for g in gs if g is not None]
    return all(g is gs[0] for g in gs) or fail("different-getter-instances-for-sibling-types")
