"""Engine Z obligations for C05 / C06: path template algebra of the live configuration."""
from __future__ import annotations

import re
from typing import Dict, List, Tuple

import z3

from tplz3 import live, sre2z3
from tplz3.zutil import Tally, X, bounded, check

from tplz3.tpltokens import tokens, DEFAULT, _PH  # noqa: F401  (z3-free: the native replays import it too)


_expr_cache: Dict[str, object] = {}


def expr_lang(expr: str):
    if expr not in _expr_cache:
        _expr_cache[expr] = sre2z3.to_z3(re.compile(expr), "full")
    return _expr_cache[expr]


def lit(text: str):
    return z3.Re(z3.StringVal(text))


def conform_lang(template: str):
    """Over-approximation of the paths that conform to a template: literals are literal (the code checks that the
    parsed data formats back to the path), placeholders range over their expression; equality of repeated
    placeholders is ignored (a superset)."""
    parts = [lit(t[1]) if t[0] == "lit" else expr_lang(t[2]) for t in tokens(template)]
    return parts[0] if len(parts) == 1 else z3.Concat(*parts)


def concrete():
    """no search symbol * , > <"""
    bad = sre2z3._ranges_to_re(sre2z3._merge([(ord(c), ord(c)) for c in "*,><"]))
    anyc = z3.Star(z3.AllChar(z3.ReSort(z3.StringSort())))
    return z3.Complement(z3.Concat(anyc, bad, anyc))


def _pcs(conf, first=""):
    sconf, Resolver, raw = live.load(conf)
    names = list(sconf.path_configs.keys())
    if first:
        names.sort(key=lambda n: n != first)      # which path configuration is loaded first
    out = {}
    for n in names:
        pc, r = live.path_resolver(n)
        out[n] = (pc, r)
    return sconf, out


def _validate(pcs) -> str:
    """The conformance languages must contain every path the real code produces for the repo's example Sids."""
    import os
    from spil import Sid
    p = os.path.join(os.environ.get("VF_REPO", "/repo"), "spil_hamlet_conf", "data", "testing", "hamlet.sids.txt")
    if not os.path.exists(p):
        return ""
    lines = [l.strip() for l in open(p) if l.strip()][::37][:40]
    for n, (pc, r) in pcs.items():
        for s in lines:
            sid = Sid(s)
            path = sid.path(n)
            if path is None:
                continue
            t = pc.path_templates.get(sid.type)
            if t is None:
                return f"no template for {sid.type}"
            if not sre2z3.simplify_in(str(path), conform_lang(t)):
                return f"translator mismatch: {path} not in conformance language of {sid.type}"
    return ""


def mapping(conf: str = "shipped") -> Dict:
    """value mappings are one-to-one on the Sid value languages and land in the path value languages."""
    sconf, pcs = _pcs(conf)
    t = Tally()
    from resolva import Resolver
    sid_r = Resolver.get("sid")
    x = X("v")
    for n, (pc, r) in pcs.items():
        for key, mp in pc.path_mapping.items():
            if isinstance(key, tuple) or not isinstance(mp, dict):
                continue
            # Sid-side language of the key: union over sid templates
            sid_exprs = sorted({e for T, tpl in sconf.sid_templates.items() for (k, kk, e) in tokens(tpl) if k == "ph" and kk == key})
            path_exprs = sorted({e for T, tpl in pc.path_templates.items() for (k, kk, e) in tokens(tpl) if k == "ph" and kk == key})
            if not sid_exprs or not path_exprs:
                continue
            items = list(mp.items())  # path value -> sid value
            fwd = x
            for pv, sv in reversed(items):          # utils.get_key: first key whose value equals v
                fwd = z3.If(x == z3.StringVal(sv), z3.StringVal(pv), fwd)
            back = fwd
            for pv, sv in reversed(items):          # mapping.get(value, value)
                back = z3.If(fwd == z3.StringVal(pv), z3.StringVal(sv), back)
            sid_lang = z3.Union(*[expr_lang(e) for e in sid_exprs]) if len(sid_exprs) > 1 else expr_lang(sid_exprs[0])
            path_lang = z3.Union(*[expr_lang(e) for e in path_exprs]) if len(path_exprs) > 1 else expr_lang(path_exprs[0])
            res, w = check(t, [z3.InRe(x, sid_lang), back != x, bounded(x)], f"{n}/{key}: back(fwd(v)) != v", x=x)
            if res == "sat":
                t.violations.append({"what": f"path mapping of '{key}' in '{n}' is not one-to-one: value {w!r} does not map back to itself", "witness": w,
                                     "replay": {"module": "tplz3.replays", "func": "mapping_roundtrip", "args": {"config": n, "key": key, "value": w}, "env": {"VF_CONF": conf}}})
            res, w = check(t, [z3.InRe(x, sid_lang), z3.Not(z3.InRe(fwd, path_lang)), bounded(x)], f"{n}/{key}: fwd(v) outside the path pattern", x=x)
            if res == "sat":
                t.violations.append({"what": f"Sid value {w!r} of '{key}' maps to a path value that the path patterns of '{n}' reject", "witness": w,
                                     "replay": {"module": "tplz3.replays", "func": "mapping_roundtrip", "args": {"config": n, "key": key, "value": w}, "env": {"VF_CONF": conf}}})
            # the other direction (C06): a path value the path patterns accept and whose Sid value the Sid patterns accept maps back to itself
            pback = x
            for pv, sv in reversed(items):
                pback = z3.If(x == z3.StringVal(pv), z3.StringVal(sv), pback)
            pfwd = pback
            for pv, sv in reversed(items):
                pfwd = z3.If(pback == z3.StringVal(sv), z3.StringVal(pv), pfwd)
            res, w = check(t, [z3.InRe(x, path_lang), z3.InRe(pback, sid_lang), pfwd != x, bounded(x)], f"{n}/{key}: fwd(back(path value)) != path value", x=x)
            if res == "sat":
                t.violations.append({"what": f"path value {w!r} of '{key}' in '{n}' is accepted and typed but does not map back to itself (path(c) of the typed Sid differs from the input path)", "witness": w,
                                     "replay": {"module": "tplz3.replays", "func": "path_value_roundtrip", "args": {"config": n, "key": key, "value": w}, "env": {"VF_CONF": conf}}})
            t.samples.append({"config": n, "key": key, "mapping": mp})
    return t.result(f"C05-mapping[{conf}]", family="C05-mapping")


def exclusive(conf: str = "shipped", only: str = "") -> Dict:
    """pairwise disjointness of the conformance languages of one configuration on concrete paths."""
    sconf, pcs = _pcs(conf)
    bad = _validate(pcs)
    if bad:
        return {"verdict": "error", "reason": bad}
    t = Tally()
    x = X()
    conc = concrete()
    for n, (pc, r) in pcs.items():
        if only and n != only:
            continue
        names = list(pc.path_templates.keys())
        langs = {T: conform_lang(pc.path_templates[T]) for T in names}
        for i, a in enumerate(names):
            for b in names[i + 1:]:
                res, w = check(t, [z3.InRe(x, langs[a]), z3.InRe(x, langs[b]), z3.InRe(x, conc), bounded(x)], f"{n}: {a} / {b} overlap", x=x, timeout_ms=30000)
                if res == "sat":
                    t.violations.append({"what": f"path templates {a} and {b} of '{n}' both accept the concrete path {w!r}", "witness": w,
                                         "replay": {"module": "tplz3.replays", "func": "path_has_single_owner", "args": {"config": n, "path": w, "a": a, "b": b}, "env": {"VF_CONF": conf}}})
    return t.result(f"C05-exclusive[{conf}]", family="C05-exclusive")


def unambiguous(conf: str = "shipped") -> Dict:
    """every placeholder/literal boundary inside one path segment is left- or right-deterministic, so the
    decomposition of a conforming file name into field values is unique."""
    sconf, pcs = _pcs(conf)
    t = Tally()
    x = X()
    anyc = z3.Star(z3.AllChar(z3.ReSort(z3.StringSort())))
    seen = set()
    for n, (pc, r) in pcs.items():
        for T, tpl in pc.path_templates.items():
            for seg in tpl.split("/"):
                toks = tokens(seg)
                if sum(1 for k in toks if k[0] == "ph") < 2:
                    continue
                key = tuple(toks)
                if key in seen:
                    continue
                seen.add(key)
                for i, tok in enumerate(toks):
                    if tok[0] != "ph" or i + 1 >= len(toks):
                        continue
                    nxt = toks[i + 1]
                    if nxt[0] != "lit":
                        t.inconclusive.append({"what": f"{T}: adjacent placeholders in {seg!r}", "reason": "no literal boundary"})
                        continue
                    Xl = expr_lang(tok[2])
                    rest_parts = [lit(k[1]) if k[0] == "lit" else expr_lang(k[2]) for k in toks[i + 2:]]
                    R = z3.Concat(*rest_parts) if len(rest_parts) > 1 else (rest_parts[0] if rest_parts else z3.Re(z3.StringVal("")))
                    l = lit(nxt[1])
                    # left-deterministic: no value of X has a proper prefix in X followed by the literal
                    left, _ = check(t, [z3.InRe(x, Xl), z3.InRe(x, z3.Concat(Xl, l, anyc)), bounded(x)], f"{T} {seg!r} boundary {i}: left", x=x)
                    if left == "unsat":
                        continue
                    right, w = check(t, [z3.InRe(x, R), z3.InRe(x, z3.Concat(anyc, l, R)), bounded(x)], f"{T} {seg!r} boundary {i}: right", x=x)
                    if right == "unsat":
                        continue
                    if left == "sat" and right == "sat":
                        t.violations.append({"what": f"file-name segment {seg!r} of {T}: boundary after {{{tok[1]}}} is neither left- nor right-deterministic", "witness": w,
                                             "replay": {"module": "tplz3.replays", "func": "always_false", "args": {"why": f"ambiguous boundary in {seg}"}, "env": {"VF_CONF": conf}}})
                t.samples.append({"segment": seg})
    return t.result(f"C05-unambiguous[{conf}]", family="C05-unambiguous")


def roots(conf: str = "shipped", first: str = "") -> Dict:
    """the path configurations differ only by the configured root, and no path conforms to templates of two configurations."""
    sconf, pcs = _pcs(conf, first)
    t = Tally()
    x = X()
    names = list(pcs.keys())
    if len(names) < 2:
        return t.result(f"C05-roots[{conf}]")

    def common_prefix(strs):
        p = strs[0]
        for s in strs[1:]:
            while not s.startswith(p):
                p = p[:-1]
        return p

    rootof = {}
    for n, (pc, r) in pcs.items():
        vals = list(pc.path_templates.values())
        cp = common_prefix(vals)
        cp = cp[: cp.index("{")] if "{" in cp else cp
        rootof[n] = cp
    a = names[0]
    same = [n for n in names[1:] if pcs[n][0].path_mapping == pcs[a][0].path_mapping]     # configurations sharing the path vocabulary
    b = same[0] if same else names[1]
    ta, tb = pcs[a][0].path_templates, pcs[b][0].path_templates
    if not same:
        # different vocabularies: only cross-configuration disjointness is claimed
        ta_, tb_ = ta, tb
    t.queries += 1
    ok = (not same) or (list(ta.keys()) == list(tb.keys()) and all(ta[k][len(rootof[a]):] == tb[k][len(rootof[b]):] for k in ta))
    if ok and rootof[a] != rootof[b]:
        t.discharged += 1
        t.samples.append({"roots": rootof})
    else:
        t.violations.append({"what": f"path configurations {a} and {b} differ by more than the root", "witness": rootof,
                             "replay": {"module": "tplz3.replays", "func": "configs_differ_only_by_root", "args": {"first": first}, "env": {"VF_CONF": conf}}})
        return t.result(f"C05-roots[{conf},first={first}]", family="C05-roots")
    # cross-configuration disjointness: a root-level argument (one query per pair of roots) + per-template queries
    la = {T: conform_lang(v) for T, v in ta.items()}
    lb = {T: conform_lang(v) for T, v in tb.items()}
    ua = z3.Union(*la.values())
    for T, L in lb.items():
        res, w = check(t, [z3.InRe(x, L), z3.InRe(x, ua), bounded(x)], f"{b}:{T} overlaps a template of {a}", x=x, timeout_ms=60000)
        if res == "sat":
            t.violations.append({"what": f"path {w!r} conforms to template {T} of '{b}' and to a template of '{a}'", "witness": w,
                                 "replay": {"module": "tplz3.replays", "func": "path_single_config", "args": {"path": w, "a": a, "b": b}, "env": {"VF_CONF": conf}}})
    return t.result(f"C05-roots[{conf},first={first}]", family="C05-roots")
