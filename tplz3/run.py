"""python -m tplz3.run <module> <func> <json-args>  -> prints 'ZRESULT <json>'."""
import importlib
import json
import sys
import time
import traceback


def main():
    module, func, args = sys.argv[1], sys.argv[2], json.loads(sys.argv[3]) if len(sys.argv) > 3 else {}
    t0 = time.time()
    try:
        mod = importlib.import_module(module)
        out = getattr(mod, func)(**args)
    except Exception:
        out = {"verdict": "error", "reason": traceback.format_exc()[-2000:]}
    out.setdefault("wall_s", time.time() - t0)
    sys.stdout.write("\nZRESULT " + json.dumps(out, default=str) + "\n")


if __name__ == "__main__":
    main()
