"""
Translate a compiled Python regular expression (as produced by resolva / glob2re from the live
configuration) into a z3 regular expression over z3's Unicode string sort.

Supported sre nodes: LITERAL, NOT_LITERAL, ANY, IN (ranges, literals, categories, negation), BRANCH,
SUBPATTERN (no inline flags), MAX_REPEAT / MIN_REPEAT (language is the same), AT_BEGINNING(_STRING) at the
very start, AT_END / AT_END_STRING at the very end.  `$` (AT_END, no MULTILINE) is CPython's: end of
string or just before a final '\n'.  Anything else raises Unsupported (-> the obligation is inconclusive).

The translation is for *anchored* use: `to_z3(pattern, mode)` returns the language of whole strings s such
that pattern.search(s) (mode='search' for '^..$' templates), pattern.match(s) with \\Z (mode='match') or
pattern.fullmatch(s) succeed.
"""
from __future__ import annotations

import re
import sys
import unicodedata
from typing import List, Tuple

import z3

try:
    import re._parser as sre_parse
    import re._constants as C
except ImportError:  # pragma: no cover
    import sre_parse  # type: ignore
    import sre_constants as C  # type: ignore

MAXCHAR = 0x2FFFF  # z3's character bound (unicode sort, 18 bits)


class Unsupported(Exception):
    pass


def _ch(c: int):
    return z3.StringVal(chr(c)) if c < 0xD800 or c > 0xDFFF else z3.Unit(z3.CharFromBv(z3.BitVecVal(c, 18)))


def _range(lo: int, hi: int):
    return z3.Range(_lit(lo), _lit(hi))


def _lit(c: int):
    # z3.StringVal handles any code point via \u{...} escapes
    return z3.StringVal(_esc(c))


def _esc(c: int) -> str:
    return chr(c)


def _any_char():
    return z3.AllChar(z3.ReSort(z3.StringSort()))


_cat_cache = {}


def _category_ranges(pred) -> List[Tuple[int, int]]:
    out = []
    start = None
    for c in range(0, MAXCHAR + 1):
        ok = pred(chr(c)) if c <= sys.maxunicode else False
        if ok and start is None:
            start = c
        elif not ok and start is not None:
            out.append((start, c - 1))
            start = None
    if start is not None:
        out.append((start, MAXCHAR))
    return out


def category_ranges(cat) -> List[Tuple[int, int]]:
    if cat in _cat_cache:
        return _cat_cache[cat]
    if cat is C.CATEGORY_DIGIT:
        r = _category_ranges(lambda ch: ch.isdigit() and unicodedata.category(ch) == "Nd")
    elif cat is C.CATEGORY_NOT_DIGIT:
        r = _complement(category_ranges(C.CATEGORY_DIGIT))
    elif cat is C.CATEGORY_SPACE:
        r = _category_ranges(lambda ch: ch.isspace())
    elif cat is C.CATEGORY_NOT_SPACE:
        r = _complement(category_ranges(C.CATEGORY_SPACE))
    elif cat is C.CATEGORY_WORD:
        r = _category_ranges(lambda ch: ch.isalnum() or ch == "_")
    elif cat is C.CATEGORY_NOT_WORD:
        r = _complement(category_ranges(C.CATEGORY_WORD))
    else:
        raise Unsupported(f"category {cat}")
    _cat_cache[cat] = r
    return r


def _complement(ranges):
    out = []
    prev = 0
    for lo, hi in sorted(ranges):
        if lo > prev:
            out.append((prev, lo - 1))
        prev = hi + 1
    if prev <= MAXCHAR:
        out.append((prev, MAXCHAR))
    return out


def _ranges_to_re(ranges):
    parts = [_range(lo, hi) if lo != hi else z3.Re(_lit(lo)) for lo, hi in ranges]
    if not parts:
        return z3.Empty(z3.ReSort(z3.StringSort()))
    return parts[0] if len(parts) == 1 else z3.Union(*parts)


def _in_ranges(items) -> List[Tuple[int, int]]:
    neg = False
    ranges: List[Tuple[int, int]] = []
    for op, arg in items:
        if op is C.NEGATE:
            neg = True
        elif op is C.LITERAL:
            ranges.append((arg, arg))
        elif op is C.RANGE:
            ranges.append((arg[0], arg[1]))
        elif op is C.CATEGORY:
            ranges.extend(category_ranges(arg))
        else:
            raise Unsupported(f"IN item {op}")
    ranges = _merge(ranges)
    return _complement(ranges) if neg else ranges


def _merge(ranges):
    out = []
    for lo, hi in sorted(ranges):
        hi = min(hi, MAXCHAR)
        if lo > MAXCHAR:
            continue
        if out and lo <= out[-1][1] + 1:
            out[-1] = (out[-1][0], max(out[-1][1], hi))
        else:
            out.append((lo, hi))
    return out


def _seq(nodes, flags):
    parts = [_node(op, arg, flags) for op, arg in nodes]
    if not parts:
        return z3.Re(z3.StringVal(""))
    return parts[0] if len(parts) == 1 else z3.Concat(*parts)


def _node(op, arg, flags):
    if flags & (re.IGNORECASE):
        raise Unsupported("IGNORECASE")
    if op is C.LITERAL:
        return z3.Re(_lit(arg))
    if op is C.NOT_LITERAL:
        return _ranges_to_re(_complement([(arg, arg)]))
    if op is C.ANY:
        if flags & re.DOTALL:
            return _any_char()
        return _ranges_to_re(_complement([(10, 10)]))
    if op is C.IN:
        return _ranges_to_re(_in_ranges(arg))
    if op is C.BRANCH:
        alts = [_seq(list(b), flags) for b in arg[1]]
        return alts[0] if len(alts) == 1 else z3.Union(*alts)
    if op is C.SUBPATTERN:
        group, add, delf, sub = arg
        if add or delf:
            raise Unsupported("inline flags")
        return _seq(list(sub), flags)
    if op in (C.MAX_REPEAT, C.MIN_REPEAT):
        lo, hi, sub = arg
        inner = _seq(list(sub), flags)
        if hi == C.MAXREPEAT:
            if lo == 0:
                return z3.Star(inner)
            if lo == 1:
                return z3.Plus(inner)
            return z3.Concat(z3.Loop(inner, lo, lo), z3.Star(inner))
        return z3.Loop(inner, lo, hi)
    raise Unsupported(f"node {op}")


def to_z3(pattern: "re.Pattern", mode: str = "search"):
    """Language of whole strings accepted by pattern under `mode`.

    mode 'search': the pattern must start with ^ and end with $ or \\Z (resolva templates);
    mode 'match':  anchored at the start by re.match, must end with \\Z or $ (glob2re);
    mode 'full':   fullmatch.
    """
    flags = pattern.flags
    tree = list(sre_parse.parse(pattern.pattern, flags))
    # leading anchor
    if tree and tree[0][0] is C.AT and tree[0][1] in (C.AT_BEGINNING, C.AT_BEGINNING_STRING):
        if flags & re.MULTILINE and tree[0][1] is C.AT_BEGINNING:
            raise Unsupported("MULTILINE ^")
        tree = tree[1:]
    elif mode == "search":
        raise Unsupported("unanchored search")
    tail = None
    if tree and tree[-1][0] is C.AT and tree[-1][1] in (C.AT_END, C.AT_END_STRING):
        tail = tree[-1][1]
        tree = tree[:-1]
    elif mode in ("search", "match"):
        raise Unsupported("not anchored at the end")
    for op, arg in tree:
        if op is C.AT:
            raise Unsupported("anchor in the middle")
    body = _seq(tree, flags)
    if tail is C.AT_END:
        if flags & re.MULTILINE:
            raise Unsupported("MULTILINE $")
        # CPython: '$' matches at the end or before a final newline
        body = z3.Concat(body, z3.Option(z3.Re(z3.StringVal("\n"))))
    return body


def simplify_in(s: str, rex) -> bool:
    r = z3.simplify(z3.InRe(z3.StringVal(s), rex))
    if z3.is_true(r):
        return True
    if z3.is_false(r):
        return False
    sol = z3.Solver()
    sol.add(r)
    return str(sol.check()) == "sat"
