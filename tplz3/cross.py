"""python -m tplz3.cross  < {"per_ms": n, "queries": [{"smt2": text}, ...]}   -> one JSON list of "sat" | "unsat" | "unknown" | "error: .."

The second solver of engine Z: each query is the SMT-LIB 2.6 text that z3 printed for the query it decided, parsed and
decided by cvc5 (no sharing of the regex translation with z3 beyond that text)."""
import json
import sys


def ask(text: str, per_ms: int, model_of: str = "") -> str:
    import cvc5
    from cvc5 import InputParser, SymbolManager
    slv = cvc5.Solver()
    slv.setOption("strings-exp", "true")
    slv.setOption("tlimit-per", str(per_ms))
    sm = SymbolManager(slv)
    p = InputParser(slv, sm)
    if model_of:
        slv.setOption("produce-models", "true")
        text = text + "\n(get-value (" + model_of + "))\n"
    p.setStringInput(cvc5.InputLanguage.SMT_LIB_2_6, "(set-logic ALL)\n" + text, "q")
    last = "unknown"
    while True:
        cmd = p.nextCommand()
        if cmd.isNull():
            break
        out = str(cmd.invoke(slv, sm)).strip()
        if out in ("sat", "unsat", "unknown"):
            last = out
        elif out.startswith("(error"):
            if last == "sat" or last == "unsat":
                return last       # e.g. get-value after unsat
            return "error: " + out[:200]
        elif model_of and last == "sat" and out.startswith("(("):
            return "sat " + out
    return last


def main():
    job = json.loads(sys.stdin.read())
    res = []
    for q in job["queries"]:
        try:
            res.append(ask(q["smt2"], int(job.get("per_ms", 15000)), q.get("model_of", "")))
        except Exception as e:   # parse errors and the like: inconclusive, never a verdict
            res.append("error: " + repr(e)[:200])
        sys.stdout.write(json.dumps(res) + "\n")
        sys.stdout.flush()


if __name__ == "__main__":
    main()
