"""Engine Z for C08: the regex that the real glob2re() returns denotes exactly the reference glob language."""
from __future__ import annotations

import itertools
import re
from typing import Dict

import z3

from tplz3 import live, sre2z3
from tplz3.zutil import Tally, X, check

ALPHABET = ["a", "/", "*", ".", "+", "-", "[", "]", "?", "^", "\\", "\n", "!", "$"]


def ref_lang(pat: str):
    noslash = z3.Star(sre2z3._ranges_to_re(sre2z3._complement([(47, 47)])))
    parts = [noslash if c == "*" else z3.Re(z3.StringVal(c)) for c in pat]
    if not parts:
        return z3.Re(z3.StringVal(""))
    return parts[0] if len(parts) == 1 else z3.Concat(*parts)


def glob(maxlen: int = 3, conf: str = "shipped") -> Dict:
    live.load(conf)
    from spil.sid.read.finders.find_list import glob2re

    t = Tally()
    x = X()
    n = 0
    for L in range(0, maxlen + 1):
        for tup in itertools.product(ALPHABET, repeat=L):
            pat = "".join(tup)
            n += 1
            try:
                rx = re.compile(glob2re(pat))
                real = sre2z3.to_z3(rx, "match")
            except re.error as e:
                t.violations.append({"what": f"glob2re({pat!r}) is not a valid regex: {e}", "witness": pat,
                                     "replay": {"module": "tplz3.replays", "func": "glob_literal", "args": {"pat": pat, "s": pat.replace("*", "")}, "env": {"VF_CONF": conf}}})
                continue
            except sre2z3.Unsupported as e:
                t.inconclusive.append({"what": pat, "reason": str(e)})
                continue
            ref = ref_lang(pat)
            res, w = check(t, [z3.InRe(x, z3.Union(z3.Intersect(real, z3.Complement(ref)), z3.Intersect(ref, z3.Complement(real)))), z3.Length(x) <= 64], f"glob2re({pat!r})", x=x, timeout_ms=10000)
            if res == "sat":
                t.violations.append({"what": f"glob2re({pat!r}) and the reference glob disagree on {w!r}", "witness": w,
                                     "replay": {"module": "tplz3.replays", "func": "glob_literal", "args": {"pat": pat, "s": w}, "env": {"VF_CONF": conf}}})
                if len(t.violations) >= 5:
                    break
            elif n % 400 == 0:
                t.samples.append({"pattern": pat, "regex": rx.pattern})
        if len(t.violations) >= 5:
            break
    return t.result(f"C08-glob[len<={maxlen}]", family="C08-glob", bound=f"every pattern of length <= {maxlen} over {ALPHABET!r}; strings |x| <= 64", patterns=n)
