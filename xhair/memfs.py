"""
In-memory model of the file system for C15 / C16 / C17 (stated in the evidence of those checks).

  FS        path string -> None (directory) | str (file content)
  MemPath   stands for pathlib.Path wherever spil obtains a path (fs_resolver.Path): pure path algebra on the
            string (name, suffix, parent, with_name, with_suffix -- same rules as PurePosixPath) and I/O against FS.
  open()    returns a handle with read / write / seek / truncate / flush / close; mode "w" truncates at open.

Effect log and crash injection (C17): every state-changing effect (mkdir, create/truncate, each write of a chunk, replace,
unlink) is one numbered step; when CRASH_AT == n the n-th effect is not performed and Crash (a BaseException: the
process dies) is raised.  A write of a text is split into its prefix effects: with CRASH_BYTES = k the write that would
crash instead stores only the first k characters (torn write), then raises Crash.
"""
from __future__ import annotations

from typing import Dict, List, Optional

FS: Dict[str, Optional[str]] = {}
MTIME: Dict[str, int] = {}
LOG: List[str] = []
POISON: Dict[str, BaseException] = {}     # path -> exception raised when the file is opened / read (unreadable side-car)
CRASH_AT = -1          # index of the effect at which the process dies (-1: never)
CRASH_BYTES = 0        # how many characters of a crashing write still reach the file
_clock = [0]


class Crash(BaseException):
    """the process died"""


def reset(state: Optional[Dict[str, Optional[str]]] = None) -> None:
    global CRASH_AT, CRASH_BYTES
    FS.clear()
    del OPEN[:]
    _OsStub._fds.clear() if "_OsStub" in globals() else None
    POISON.clear()
    MTIME.clear()
    del LOG[:]
    CRASH_AT = -1
    CRASH_BYTES = 0
    if state:
        for k, v in state.items():
            FS[k] = v
            _touch(k)


def snapshot() -> Dict[str, Optional[str]]:
    return dict(FS)


def _touch(p: str) -> None:
    _clock[0] += 1
    MTIME[p] = _clock[0]


def _effect(desc: str) -> None:
    """one state-changing step; may be the crash point."""
    n = len(LOG)
    LOG.append(desc)
    if n == CRASH_AT:
        raise Crash(desc)


def _parent(p: str) -> str:
    i = p.rfind("/")
    if i <= 0:
        return "/" if p.startswith("/") else ""
    return p[:i]


def _ensure_parents_exist(p: str) -> None:
    par = _parent(p)
    if par not in ("", "/") and par not in FS:
        raise FileNotFoundError(par)


class _Stat:
    """time stamps: one tick per effect, in NANOSECONDS -- a whole run happens within the same second"""

    def __init__(self, p):
        self.st_mtime_ns = MTIME.get(p, 0)
        self.st_mtime = self.st_mtime_ns / 1e9
        self.st_size = len(FS.get(p) or "")


OPEN: List["_Handle"] = []     # open handles: a rename retargets them (a descriptor follows the file, not the name)


class _Handle:
    """Text handle.  Writes are BUFFERED (as Python's file objects do): they reach the file at flush() / close(); a process
    death before that loses them.  os-level descriptors (_OsStub.open) are unbuffered."""

    def __init__(self, path: str, mode: str, buffered: bool = True):
        self.path = path
        self.mode = mode
        self.pos = 0
        self.closed = False
        self.name = path
        self.buffered = buffered
        self.buf: List[str] = []
        if "a" in mode:
            self.pos = len(FS.get(path) or "")
        OPEN.append(self)

    # context manager
    def __enter__(self):
        return self

    def __exit__(self, et, ev, tb):
        if et is not None and issubclass(et, Crash):
            return False          # the process died: nothing is flushed
        self.close()
        return False

    def read(self, n: int = -1) -> str:
        if not any(m in self.mode for m in ("r", "+")):
            raise OSError("not readable")
        if self.path in POISON:
            raise POISON[self.path]
        self.flush()
        data = FS.get(self.path) or ""
        out = data[self.pos:] if n is None or n < 0 else data[self.pos:self.pos + n]
        self.pos += len(out)
        return out

    def write(self, s: str) -> int:
        if not any(m in self.mode for m in ("w", "a", "+")):
            raise OSError("not writable")
        s = str(s)
        if self.buffered:
            self.buf.append(s)
            return len(s)
        return self._write_through(s)

    def _write_through(self, s: str) -> int:
        n = len(LOG)
        LOG.append(f"write {self.path} [{len(s)} chars at {self.pos}]")
        cur = FS.get(self.path) or ""
        if n == CRASH_AT:
            part = s[:CRASH_BYTES]
            FS[self.path] = cur[:self.pos] + part + cur[self.pos + len(part):]
            _touch(self.path)
            raise Crash("torn write")
        FS[self.path] = cur[:self.pos] + s + cur[self.pos + len(s):]
        self.pos += len(s)
        _touch(self.path)
        return len(s)

    def seek(self, pos: int, whence: int = 0) -> int:
        self.flush()
        if whence == 0:
            self.pos = pos
        elif whence == 1:
            self.pos += pos
        else:
            self.pos = len(FS.get(self.path) or "") + pos
        return self.pos

    def tell(self) -> int:
        return self.pos

    def truncate(self, size: Optional[int] = None) -> int:
        self.flush()
        size = self.pos if size is None else size
        _effect(f"truncate {self.path} to {size}")
        FS[self.path] = (FS.get(self.path) or "")[:size]
        _touch(self.path)
        return size

    def flush(self) -> None:
        if self.buf:
            text = "".join(self.buf)
            del self.buf[:]
            self._write_through(text)

    def fileno(self) -> int:
        return 3

    def close(self) -> None:
        if not self.closed:
            try:
                self.flush()
            finally:
                self.closed = True
                if self in OPEN:
                    OPEN.remove(self)

    def __iter__(self):
        return iter((FS.get(self.path) or "").splitlines(True))


class MemPath:
    def __init__(self, *parts):
        s = "/".join(str(p) for p in parts) if len(parts) != 1 else str(parts[0])
        while "//" in s:
            s = s.replace("//", "/")
        if len(s) > 1 and s.endswith("/"):
            s = s[:-1]
        self._s = s

    # ---- pure algebra (PurePosixPath rules)
    def __str__(self):
        return self._s

    def __fspath__(self):
        return self._s

    def __repr__(self):
        return f"MemPath({self._s!r})"

    def __eq__(self, other):
        return str(other) == self._s

    def __hash__(self):
        return hash(self._s)

    def __truediv__(self, other):
        return MemPath(self._s + "/" + str(other))

    def as_posix(self):
        return self._s

    @property
    def name(self) -> str:
        return self._s[self._s.rfind("/") + 1:]

    @property
    def parent(self) -> "MemPath":
        return MemPath(_parent(self._s) or ".")

    @property
    def suffix(self) -> str:
        name = self.name
        i = name.rfind(".")
        if 0 < i < len(name) - 1:
            return name[i:]
        return ""

    @property
    def stem(self) -> str:
        name = self.name
        i = name.rfind(".")
        if 0 < i < len(name) - 1:
            return name[:i]
        return name

    def with_name(self, name: str) -> "MemPath":
        if not self.name:
            raise ValueError("%r has an empty name" % (self,))
        if not name or "/" in name or name == ".":
            raise ValueError("Invalid name %r" % (name,))
        par = _parent(self._s)
        return MemPath((par + "/" if par not in ("",) and par != "/" else par) + name) if par else MemPath(name)

    def with_suffix(self, suffix: str) -> "MemPath":
        if "/" in suffix or (suffix and not suffix.startswith(".")) or suffix == ".":
            raise ValueError("Invalid suffix %r" % (suffix,))
        name = self.name
        if not name:
            raise ValueError("%r has an empty name" % (self,))
        old = self.suffix
        if not old:
            name = name + suffix
        else:
            name = name[: -len(old)] + suffix
        return self.with_name(name)

    def relative_to(self, other):
        o = str(other)
        if not self._s.startswith(o):
            raise ValueError
        return MemPath(self._s[len(o):].lstrip("/") or ".")

    # ---- I/O against FS
    def exists(self) -> bool:
        return self._s in FS

    def is_dir(self) -> bool:
        return self._s in FS and FS[self._s] is None

    def is_file(self) -> bool:
        return self._s in FS and FS[self._s] is not None

    def stat(self):
        if self._s not in FS:
            raise FileNotFoundError(self._s)
        return _Stat(self._s)

    def mkdir(self, mode=0o777, parents: bool = False, exist_ok: bool = False) -> None:
        if self._s in FS:
            if exist_ok and FS[self._s] is None:
                return
            raise FileExistsError(self._s)
        par = _parent(self._s)
        if par not in ("", "/") and par not in FS:
            if not parents:
                raise FileNotFoundError(par)
            MemPath(par).mkdir(parents=True, exist_ok=True)
        _effect(f"mkdir {self._s}")
        FS[self._s] = None
        _touch(self._s)

    def touch(self, mode=0o666, exist_ok: bool = True) -> None:
        if self._s in FS:
            if not exist_ok:
                raise FileExistsError(self._s)
            _touch(self._s)
            return
        _ensure_parents_exist(self._s)
        _effect(f"create {self._s}")
        FS[self._s] = ""
        _touch(self._s)

    def open(self, mode: str = "r", *a, **k):
        if self._s in POISON and isinstance(POISON[self._s], OSError):
            raise POISON[self._s]
        if FS.get(self._s, "") is None and self._s in FS:
            raise IsADirectoryError(self._s)
        if "r" in mode and "+" not in mode or mode.startswith("r"):
            if self._s not in FS:
                raise FileNotFoundError(self._s)
        if "w" in mode:
            _ensure_parents_exist(self._s)
            _effect(f"create/truncate {self._s}")
            FS[self._s] = ""
            _touch(self._s)
        elif "a" in mode or "x" in mode:
            if "x" in mode and self._s in FS:
                raise FileExistsError(self._s)
            if self._s not in FS:
                _ensure_parents_exist(self._s)
                _effect(f"create {self._s}")
                FS[self._s] = ""
                _touch(self._s)
        return _Handle(self._s, mode)

    def read_text(self, *a, **k) -> str:
        with self.open("r") as f:
            return f.read()

    def write_text(self, data: str, *a, **k) -> int:
        with self.open("w") as f:
            return f.write(data)

    def replace(self, target) -> "MemPath":
        t = str(target)
        if self._s not in FS:
            raise FileNotFoundError(self._s)
        _effect(f"replace {self._s} -> {t}")
        FS[t] = FS.pop(self._s)
        for h in OPEN:
            if h.path == self._s:
                h.path = t
        _touch(t)
        return MemPath(t)

    rename = replace

    def unlink(self, missing_ok: bool = False) -> None:
        if self._s not in FS:
            if missing_ok:
                return
            raise FileNotFoundError(self._s)
        _effect(f"unlink {self._s}")
        del FS[self._s]

    def iterdir(self):
        pre = self._s.rstrip("/") + "/"
        for p in list(FS):
            if p.startswith(pre) and "/" not in p[len(pre):]:
                yield MemPath(p)


class _OsStub:
    """what an atomic rewrite would call"""

    sep = "/"

    @staticmethod
    def replace(src, dst):
        MemPath(str(src)).replace(dst)

    rename = replace

    @staticmethod
    def fsync(fd):
        return None

    @staticmethod
    def remove(p):
        MemPath(str(p)).unlink()

    unlink = remove

    class path:
        @staticmethod
        def exists(p):
            return str(p) in FS

        @staticmethod
        def isfile(p):
            return str(p) in FS and FS[str(p)] is not None

        @staticmethod
        def isdir(p):
            return str(p) in FS and FS[str(p)] is None

        @staticmethod
        def join(a, *more):
            import posixpath
            return posixpath.join(str(a), *[str(m) for m in more])

        @staticmethod
        def dirname(p):
            return _parent(str(p))

        @staticmethod
        def basename(p):
            return str(p)[str(p).rfind("/") + 1:]

    # ---- file-descriptor level calls (POSIX semantics on the model: O_CREAT without O_TRUNC keeps the old content)
    O_RDONLY, O_WRONLY, O_RDWR, O_CREAT, O_EXCL, O_TRUNC, O_APPEND = 0, 1, 2, 64, 128, 512, 1024
    _fds: dict = {}

    @staticmethod
    def fspath(p):
        return str(p)

    @staticmethod
    def open(path, flags, mode=0o777, *a, **k):
        p = str(path)
        if p in FS and FS[p] is None:
            raise IsADirectoryError(p)
        if p in POISON and isinstance(POISON[p], OSError):
            raise POISON[p]
        if p not in FS:
            if not flags & _OsStub.O_CREAT:
                raise FileNotFoundError(p)
            _ensure_parents_exist(p)
            _effect(f"create {p}")
            FS[p] = ""
            _touch(p)
        elif flags & _OsStub.O_CREAT and flags & _OsStub.O_EXCL:
            raise FileExistsError(p)
        elif flags & _OsStub.O_TRUNC and (flags & 3):
            _effect(f"create/truncate {p}")
            FS[p] = ""
            _touch(p)
        fd = 3 + len(_OsStub._fds)
        while fd in _OsStub._fds:
            fd += 1
        h = _Handle(p, "r+" if flags & 3 else "r", buffered=False)
        if flags & _OsStub.O_APPEND:
            h.pos = len(FS[p] or "")
        _OsStub._fds[fd] = h
        return fd

    @staticmethod
    def write(fd, data):
        h = _OsStub._fds[fd]
        text = data.decode("utf-8") if isinstance(data, (bytes, bytearray)) else str(data)
        h.write(text)
        return len(data)

    @staticmethod
    def read(fd, n):
        return _OsStub._fds[fd].read(n).encode("utf-8")

    @staticmethod
    def ftruncate(fd, size):
        _OsStub._fds[fd].truncate(size)

    @staticmethod
    def close(fd):
        h = _OsStub._fds.pop(fd, None)
        if h is not None:
            h.close()

    @staticmethod
    def makedirs(p, mode=0o777, exist_ok=False):
        MemPath(str(p)).mkdir(parents=True, exist_ok=exist_ok)

    @staticmethod
    def mkdir(p, mode=0o777):
        MemPath(str(p)).mkdir()


def install() -> None:
    """Route every path that spil's writer / getter touch through MemPath."""
    from spil.sid.pathops import fs_resolver, write_paths, getter_paths

    fs_resolver.Path = MemPath
    for mod in (write_paths, getter_paths):
        if hasattr(mod, "Path"):
            mod.Path = MemPath
        if hasattr(mod, "os"):
            mod.os = _OsStub
