"""C05 / C06 -- Sid -> path -> Sid identity; a path resolves only to the Sid that owns it and never makes Sid() fail."""
from __future__ import annotations

from xhair import env
from xhair.obl_util import fail, envint, envstr

env.setup()
env.stub_path()

from spil import Sid, conf  # noqa: E402
from oracles import typing_ref  # noqa: E402

typing_ref.templates()
N = envint("VF_N", 2)
PRE = envstr("VF_PRE", "")
SUF = envstr("VF_SUF", "")
PRE2 = envstr("VF_PRE2", "")
SUF2 = envstr("VF_SUF2", "")
CONFIG = envstr("VF_CONFIG", "local")
LX = envint("VF_LX", 1)
LY = envint("VF_LY", 1)
from spil.sid.pathops.pathconfig import get_path_config  # noqa: E402
import os as _os  # noqa: E402

_names = list(conf.path_configs.keys())
ROOTS = {c: _os.path.commonprefix(list(get_path_config(c).path_templates.values())).split("{")[0].rstrip("/") for c in _names}
OTHER = {c: _names[(i + 1) % len(_names)] for i, c in enumerate(_names)}
if CONFIG not in ROOTS:
    CONFIG = _names[0]
# "differ only by the configured root" applies to configurations that share the path vocabulary (value mappings)
SAME_VOCAB = {c: get_path_config(c).path_mapping == get_path_config(OTHER[c]).path_mapping for c in _names}

HAS_PATH = {c: set(get_path_config(c).path_templates.keys()) for c in ROOTS}
DEFAULT = conf.default_path_config or _names[0]       # "either name, or configured default, or first path_configs entry"


def _cat(pre: str, t: str, suf: str) -> str:
    s = pre + t if pre else t
    return s + suf if suf else s


def _degenerate(sid) -> bool:
    """pathlib collapses empty and '.' segments: outside the claim (DESIGN section 3).  '..' is kept by pathlib and is inside."""
    for v in sid.fields.values():
        if v == "" or v == "." or "/" in v:
            return True
    return False


def _rt(sid) -> bool:
    c = CONFIG
    if not sid:
        return sid.path(c) is None or fail("untyped-has-path")
    if sid.is_search() or _degenerate(sid):
        return True
    p = sid.path(c)
    if sid.type not in HAS_PATH[c]:
        return p is None or fail("no-template-but-path")
    if p is None:
        return fail("template-but-no-path")
    ps = str(p)
    if str(sid.path(c)) != ps:
        return fail("path-not-pure")
    if c == DEFAULT and str(sid.path()) != ps:
        return fail("path()-is-not-the-default-configuration's-path")
    back = Sid(path=ps, config=c)
    if back != sid or back.type != sid.type or back.fields != sid.fields:
        return fail("path-roundtrip")
    if list(back.fields) != list(sid.fields):
        return fail("path-roundtrip-changes-field-order")      # same uri, but keytype / parent / get_as follow the field order (C03)
    other = sid.path(OTHER[c])
    if other is None:
        return fail("other-config-no-path")
    root, oroot = ROOTS[c], ROOTS[OTHER[c]]
    if not ps.startswith(root + "/") or not str(other).startswith(oroot + "/"):
        return fail("wrong-root")
    if SAME_VOCAB[c] and ps[len(root):] != str(other)[len(oroot):]:
        return fail("tails-differ-between-configurations")
    if Sid(path=ps, config=OTHER[c]):
        return fail("path-resolves-under-other-configuration")
    return True


def roundtrip(t: str) -> bool:
    """
    Concrete typed Sid PRE+t+SUF: Sid(path=sid.path(c), config=c) == sid; path(c) is pure; the two configurations
    give root + the same tail; no path template => None, never an exception.
    pre: len(t) <= N
    pre: '?' not in t and ':' not in t
    post: _
    """
    return _rt(Sid(_cat(PRE, t, SUF)))


BASE = envstr("VF_BASE", "h/a/x/v1/m")
KEY = envstr("VF_KEY", "n")


POOLV = envstr("VF_POOLV", "smoke;left-arm;hair.sim;a b;x+y;é;_;-;v001;smoke_2").split(";")


def roundtrip_pool(i: int) -> bool:
    """
    The same for a Sid built from fields with one free key taken from a pool of 10 values (names with '-', '.', ' ', '+',
    non-ASCII, '_') by a symbolic index -- for long shipped skeletons where symbolic text in the middle is out of reach.
    pre: 0 <= i < len(POOLV)
    post: _
    """
    f = dict(Sid(BASE).fields)
    f[KEY] = POOLV[i]
    return _rt(Sid(fields=f))


def roundtrip_fields(t: str) -> bool:
    """
    The same for a Sid built from FIELDS: the value of one free key is any text (also the characters '?' and ':' that
    a Sid string cannot carry in a value).
    pre: len(t) <= N
    post: _
    """
    f = dict(Sid(BASE).fields)
    f[KEY] = t
    return _rt(Sid(fields=f))


def injective(a: str, b: str) -> bool:
    """
    Two different concrete Sids never map to the same path.
    pre: len(a) <= N and len(b) <= N
    pre: '?' not in a and ':' not in a and '?' not in b and ':' not in b
    post: _
    """
    A, B = Sid(_cat(PRE, a, SUF)), Sid(_cat(PRE2, b, SUF2))
    if not A or not B or A.is_search() or B.is_search() or _degenerate(A) or _degenerate(B):
        return True
    pa, pb = A.path(CONFIG), B.path(CONFIG)
    if pa is None or pb is None:
        return True
    if str(pa) == str(pb) and A != B:
        return fail("two-sids-one-path")
    return True


def from_path(x: str) -> bool:
    """
    Sid(path=PRE+x+SUF, config=c) never raises; whenever it is typed, its path(c) is exactly the input.
    pre: len(x) <= N
    post: _
    """
    p = _cat(PRE, x, SUF)
    sid = Sid(path=p, config=CONFIG)
    if not sid:
        return (sid.type == "" and sid.fields == {}) or fail("untyped-with-fields")
    if _degenerate(sid):
        return True
    back = sid.path(CONFIG)
    if back is None:
        return fail("typed-from-path-but-no-path")
    if str(back) != p:
        return fail("typed-but-path-differs-from-input")
    return True


def from_path_after_other(x: str) -> bool:
    """
    History of two calls: the same path is first resolved under ANOTHER configuration (VF_CONFIG2), then under CONFIG; the
    second answer obeys from_path's assertions (a path owned by one configuration is not adopted by the other one).
    pre: len(x) <= N
    post: _
    """
    p = _cat(PRE, x, SUF)
    first = Sid(path=p, config=envstr("VF_CONFIG2", "local"))
    if first and not _degenerate(first) and str(first.path(envstr("VF_CONFIG2", "local"))) != p:
        return fail("first-config-typed-but-path-differs-from-input")
    sid = Sid(path=p, config=CONFIG)
    if not sid:
        return (sid.type == "" and sid.fields == {}) or fail("untyped-with-fields")
    if _degenerate(sid):
        return True
    back = sid.path(CONFIG)
    if back is None:
        return fail("typed-from-path-but-no-path")
    if str(back) != p:
        return fail("typed-but-path-differs-from-input")
    return True


def from_path2(x: str, y: str) -> bool:
    """
    Two independent symbolic holes (desynchronised repeated fields, changed separators): same two assertions.
    Lengths are fixed per obligation (VF_LX, VF_LY) so that every offset in the path is concrete.
    pre: len(x) == LX and len(y) == LY
    post: _
    """
    p = PRE + x + envstr("VF_MID", "") + y + SUF
    sid = Sid(path=p, config=CONFIG)
    if not sid:
        return (sid.type == "" and sid.fields == {}) or fail("untyped-with-fields")
    if _degenerate(sid):
        return True
    back = sid.path(CONFIG)
    if back is None:
        return fail("typed-from-path-but-no-path")
    if str(back) != p:
        return fail("typed-but-path-differs-from-input")
    return True


def reach(t: str) -> bool:
    """
    Twin: a file Sid with a free name round-trips.
    pre: 1 <= len(t) <= N and t != '.' and t != '..' and '/' not in t
    pre: '?' not in t and ':' not in t
    post: _
    """
    sid = Sid(_cat(PRE, t, SUF))
    if not sid or sid.is_search() or len(sid) < 5:
        return True
    p = sid.path(CONFIG)
    return not (p is not None and Sid(path=str(p), config=CONFIG) == sid)


def reach_from_path(x: str) -> bool:
    """
    Twin: a typed Sid is reachable from a path.
    pre: len(x) <= N
    post: _
    """
    return not bool(Sid(path=_cat(PRE, x, SUF), config=CONFIG))


HOLE = ["x", "y", "", "_", ".", "/", "v1", "H", "*", "x_y", "\n", "o"]


def from_path_pool(i: int, j: int) -> bool:
    """
    Two holes filled from a 12-entry pool (names, separators, empty, newline, search symbol) by symbolic indices.
    pre: 0 <= i < 12 and 0 <= j < 12
    post: _
    """
    p = PRE + HOLE[i] + envstr("VF_MID", "") + HOLE[j] + SUF
    sid = Sid(path=p, config=CONFIG)
    if not sid:
        return (sid.type == "" and sid.fields == {}) or fail("untyped-with-fields")
    if _degenerate(sid):
        return True
    back = sid.path(CONFIG)
    if back is None:
        return fail("typed-from-path-but-no-path")
    if str(back) != p:
        return fail("typed-but-path-differs-from-input")
    return True


def from_path_chars(i: int, j: int, k: int) -> bool:
    """
    Holes filled with single symbolic characters chr(i), chr(j), chr(k) (k only if VF_SUF2 is set): the path string
    has a concrete length, every offset is concrete.  Same two assertions as from_path.
    pre: 0 <= i <= 0x10FFFF and 0 <= j <= 0x10FFFF and 0 <= k <= 0x10FFFF
    post: _
    """
    p = PRE + chr(i) + envstr("VF_MID", "") + chr(j) + SUF
    if SUF2:
        p = p + chr(k) + SUF2
    sid = Sid(path=p, config=CONFIG)
    if not sid:
        return (sid.type == "" and sid.fields == {}) or fail("untyped-with-fields")
    if _degenerate(sid):
        return True
    back = sid.path(CONFIG)
    if back is None:
        return fail("typed-from-path-but-no-path")
    if str(back) != p:
        return fail("typed-but-path-differs-from-input")
    return True


# paths of different types whose FIELDS are equal (the extension is a search symbol), next to ordinary ones
SEQ = envstr("VF_SEQ", "/r/H/A/x/v1/x_v1.*;/r/H/A/x/v1/O/x_v1.*;/r/H/A/x/v1/x_v1.m;/r/H/A/x/v1/O/x_v1.g;/r/H/S/q1/v1/q1_v1.>;/r/H/S/q1/v1/E/q1_v1.>;/r/H/A/x/v1;/r/H/S/q1/v1/E/q1_o_v1.*;/r/H/A/X/v1;/r/H/A/X/v1/X_v1.m").split(";")


def _owns(p: str) -> bool:
    sid = Sid(path=p, config=CONFIG)
    if not sid:
        return True
    back = sid.path(CONFIG)
    return back is not None and str(back) == p


def from_path_seq(i: int, j: int) -> bool:
    """
    Two paths resolved one after the other in one process (spil's caches on): each typed result still owns its path.
    pre: 0 <= i < len(SEQ) and 0 <= j < len(SEQ)
    post: _
    """
    env.clear_caches()
    if not _owns(SEQ[i]):
        return fail("typed-but-path-differs-from-input")
    if not _owns(SEQ[j]):
        return fail("typed-but-path-differs-from-input-after-another-path")
    return True
