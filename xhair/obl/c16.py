"""C16 -- a Getter returns one record per Sid its Finder finds, in the same order (memfs + glob stub)."""
from __future__ import annotations

import json

from xhair import env
from xhair.obl_util import fail, envint, envstr

env.setup()
env.const_sid_hash()

from xhair import memfs, globstub  # noqa: E402

memfs.install()
globstub.install()
import hamlet_plugins.next_get  # noqa: E402,F401

from spil import Sid, conf, SpilException, WriteToPaths, GetFromPaths, FindInPaths, GetFromAll, FindInAll  # noqa: E402

CONFIG = envstr("VF_CONFIG", "local")
ENTITIES = ["h/a/x/v1/m", "h/a/x/v1/b", "h/a/x/v2/m", "h/a/x/v1/g", "h/s/q1/v1/c"]
SEARCHES = ["h/a/x/*/*", "h/a/x/v1/y", "h/a/x/v1/m", "h/a/**", "h/a/x/>/m", "h/*/**/c,m", "h/a/x/v9/m", "h/a/x/*", "h/*", "h/a/x/v1/*?ext=y", "h/a/x/>/y", "h/a/x,*/v1/m"]
if envstr("VF_ENTITIES", ""):         # another configuration: its own entities, searches, and the types it configures without a Getter
    ENTITIES = envstr("VF_ENTITIES", "").split(";")
    SEARCHES = envstr("VF_SEARCHES", "").split(";")
NOGETTER = envstr("VF_NOGETTER", "p,a,s").split(",")
NOGETTER_SID = envstr("VF_NOGETTER_SID", "h/a")
PRELUDE = envint("VF_PRELUDE", 0)
SI = envint("VF_SI", 0)
KEYS = ["comment", "author", "sid", "missing"]
VALS = ["x", "a longer value", 0, "é"]        # 0: a stored value that is falsy but not None
ATTRS = [None, ["comment"], ["author", "sid", "missing"], [], ["sid"]]
ENCODERS = [str, lambda s: s.uri, lambda s: None, lambda s: s]
_R = list(range(32))


def _build(d0: int, d1: int, d2: int):
    """three entities get data through the real writer; the others exist without data."""
    memfs.reset({})
    w = WriteToPaths(CONFIG)
    stored = {}
    for i, e in enumerate(ENTITIES):
        w.create(Sid(e))
    for i, d in ((0, d0), (1, d1), (2, d2)):
        if d:
            data = {KEYS[d % 2]: VALS[(d // 2) % 4]}
            w.set(Sid(ENTITIES[i]), **data)
    globstub.UNIVERSE[:] = list(memfs.FS.keys())


def _stored(sid) -> dict:
    p = sid.path(CONFIG)
    if p is None:
        return {}
    sc = str(conf.get_data_json_path(p))
    if sc in memfs.FS:
        return json.loads(memfs.FS[sc])
    return {}


def _expected(sid, attrs, enc) -> dict:
    data = dict(_stored(sid))
    e = enc(sid)
    if e:
        data["sid"] = e
    if attrs:
        return {k: data.get(k) for k in attrs}
    return data


D0, D1, D2 = envint("VF_D0", 1), envint("VF_D1", 5), envint("VF_D2", 0)      # entity 0: comment='x', entity 1: author=0 (falsy), entity 2: nothing
A1, E1 = envint("VF_A1", 0), envint("VF_E1", 0)
_FS0 = None


def _universe():
    """built once, natively, through the real writer (before any symbolic run); restored for each path"""
    global _FS0
    if _FS0 is None:
        _build(D0, D1, D2)
        _FS0 = memfs.snapshot()
    memfs.reset(_FS0)
    globstub.UNIVERSE[:] = list(memfs.FS.keys())


_universe()


def get_vs_find(a2: int, e2: int) -> bool:
    """
    GetFromPaths(c).get(SEARCH, attributes, sid_encode) yields exactly one mapping per Sid that FindInPaths(c).find(SEARCH)
    yields, in the same order, each = stored data + 'sid' (encoded; omitted when the encoder returns None), or exactly the
    requested attributes.  Two get calls in a row with different attribute lists / encoders (the second must not see the first).
    (universe data VF_D0..2 and the first call's attribute list / encoder VF_A1, VF_E1 are fixed per obligation.)
    pre: (a2 == 0 or a2 == 2 or a2 == 4) and 0 <= e2 < 3
    post: _
    """
    a1, e1, a2, e2 = A1, E1, _R[a2], _R[e2]
    _universe()
    search = SEARCHES[SI]
    found = list(FindInPaths(CONFIG).find(search, as_sid=True))
    g = GetFromPaths(CONFIG)
    for (ai, ei) in ((a1, e1), (a2, e2)):
        attrs, enc = ATTRS[ai], ENCODERS[ei]
        recs = [dict(r) for r in g.get(search, attributes=attrs, sid_encode=enc)]
        if len(recs) != len(found):
            return fail("record-count-differs-from-found-sids")
        for sid, rec in zip(found, recs):
            if rec != _expected(sid, attrs, enc):
                return fail("record-is-not-stored-data-plus-sid")
    # first-record helpers
    one = dict(g.get_one(search))
    if found:
        if one != _expected(found[0], None, str):
            return fail("get_one-is-not-the-first-record")
    elif one != {}:
        return fail("get_one-on-empty")
    return True


def all_vs_find(a1: int, e1: int) -> bool:
    """
    GetFromAll: same records as FindInAll finds Sids for types with a configured Getter; types configured without one
    ('p', 'a', 's' levels) yield nothing and do not fail; get_data / get_attr are that Sid's record / one value of it.
    pre: (a1 == 0 or a1 == 2) and 0 <= e1 < 3
    post: _
    """
    d0, a1, e1 = D0, _R[a1], _R[e1]
    _universe()
    if PRELUDE:
        try:
            Sid(ENTITIES[0]).get_next("version")      # an attribute-specific Getter ('next.version') is asked first
        except Exception:
            pass
    search = SEARCHES[SI]
    attrs, enc = ATTRS[a1], ENCODERS[e1]
    found = [s for s in FindInAll().find(search, as_sid=True) if s.type not in NOGETTER]
    recs = [dict(r) for r in GetFromAll().get(search, attributes=attrs, sid_encode=enc)]
    if len(recs) != len(found):
        return fail("record-count-differs-from-found-sids")
    want = [_expected(s, attrs, enc) for s in found]
    for r in recs:
        if r not in want:
            return fail("record-is-not-stored-data-plus-sid")
    for w in want:
        if w not in recs:
            return fail("missing-record")
    sid = Sid(ENTITIES[0])
    if dict(GetFromAll().get_data(sid)) != _expected(sid, None, str):
        return fail("get_data-is-not-the-sids-record")
    if GetFromAll().get_attr(sid, KEYS[d0 % 2]) != _expected(sid, None, str).get(KEYS[d0 % 2]):
        return fail("get_attr-is-not-one-value-of-the-record")
    if dict(GetFromAll().get_data(Sid(NOGETTER_SID))) != {}:
        return fail("type-without-getter-yields-data")
    return True


def reach(d0: int) -> bool:
    """
    Twin: at least two records with data.
    pre: 0 <= d0 < 4
    post: _
    """
    _universe()
    return len([r for r in GetFromPaths(CONFIG).get("h/a/x/*/*") if len(r) > 1]) < 2
