"""C13 -- answers never depend on what was asked before (caches are invisible)."""
from __future__ import annotations

import os

os.environ.setdefault("VF_CACHES", "1")     # the entry-point obligations run with spil's caches ON

from xhair import env
from xhair.obl_util import fail, envint, envstr

env.setup()

from spil.util import caching  # noqa: E402

WRAPPER = envstr("VF_WRAPPER", "lru_kw_cache")
MAXSIZE = envint("VF_MAXSIZE", 1)
M1 = envint("VF_M1", 0)
M2 = envint("VF_M2", 1)
M3 = envint("VF_M3", 4)
IDX = envint("VF_IDX", 0)


_R = list(range(8))
KW1 = envint("VF_KW1", 0)
KW2 = envint("VF_KW2", 1)


def _pure(a, b=0, c=0):
    return (a, b, c, a * 9 + b * 3 + c)


def _call(g, mode: int, a, b, c):
    if mode == 0:
        return g(a, b, c)
    if mode == 1:
        return g(a, b=b, c=c)
    if mode == 2:
        return g(a, c=c, b=b)
    if mode == 3:
        return g(a, b, c=c)
    if mode == 5:
        return g(a, b=b)        # one keyword only: the other keeps its default
    if mode == 6:
        return g(a, c=b)        # the same VALUE under the other keyword name
    return g(a=a, b=b, c=c)


def wrap(a1: int, b1: int, c1: int, a2: int, b2: int, c2: int, a3: int, b3: int) -> bool:
    """
    A wrapped pure function of all its arguments returns, on every call of a 3-call history followed by the first call again, what the bare
    function returns -- passing styles VF_M1..3 (positional / keyword mixes), capacity VF_MAXSIZE (eviction forced).
    pre: 0 <= a1 < 2 and 0 <= b1 < 3 and 0 <= c1 < 2
    pre: 0 <= a2 < 2 and 0 <= b2 < 3 and 0 <= c2 < 2
    pre: 0 <= a3 < 2 and 0 <= b3 < 2
    post: _
    """
    m1, m2, m3, c3 = M1, M2, M3, 0
    a1, b1, c1, a2, b2, c2, a3, b3 = _R[a1], _R[b1], _R[c1], _R[a2], _R[b2], _R[c2], _R[a3], _R[b3]   # realise (keys are hashed)
    old = caching._max_size
    caching._max_size = MAXSIZE
    try:
        g = getattr(caching, WRAPPER)(_pure)
        for (m, a, b, c) in ((m1, a1, b1, c1), (m2, a2, b2, c2), (m3, a3, b3, c3), (m1, a1, b1, c1)):      # the 4th call repeats the 1st (after an eviction)
            if _call(g, m, a, b, c) != _call(_pure, m, a, b, c):
                return fail("cached-result-differs-from-bare-function")
        return True
    finally:
        caching._max_size = old


_calls = []


def _falsy(a, b=0):
    _calls.append((a, b))
    return [] if (a + b) % 2 else [a, b]


def hit_falsy(a1: int, b1: int, a2: int, b2: int, kw: bool) -> bool:
    """
    hit_cache never caches a falsy result (the function is called again), and caches truthy ones correctly.
    pre: 0 <= a1 < 3 and 0 <= b1 < 3 and 0 <= a2 < 3 and 0 <= b2 < 3
    post: _
    """
    a1, b1, a2, b2 = _R[a1], _R[b1], _R[a2], _R[b2]
    del _calls[:]
    g = caching.hit_cache(_falsy)
    r1 = g(a1, b=b1) if kw else g(a1, b1)
    n1 = len(_calls)
    r2 = g(a2, b=b2) if kw else g(a2, b2)
    del _calls[n1:]
    if r1 != _falsy(a1, b1) or r2 != _falsy(a2, b2):
        return fail("hit_cache-result-differs")
    if (a1, b1) == (a2, b2) and not r1 and n1 != 1:
        return fail("hit_cache-call-count")
    return True


def reach(a1: int, b1: int, a2: int, b2: int) -> bool:
    """
    Twin: a cache hit (second call does not reach the function) is reachable.
    pre: 0 <= a1 < 3 and 0 <= b1 < 3 and 0 <= a2 < 3 and 0 <= b2 < 3
    post: _
    """
    del _calls[:]
    g = caching.lru_kw_cache(_falsy)
    g(a1, b1)
    g(a2, b2)
    return len(_calls) == 2


# ------------------------------------------------------------------------------------------------
# entry points, caches ON.  Cache keys are hashed, hashing realises: the call alphabet is finite and every
# argument is chosen by a symbolic index (the solver enumerates the histories).
from spil import Sid  # noqa: E402
from spil.sid.read.tools import unfold_search  # noqa: E402
from spil.sid.pathops import fs_resolver  # noqa: E402

SIDS = ["h/a/x/v1/m", "h/s/q1/v1/c", "h/s/q1/v1/o/c", "h/a/x", "h", "h/*/*", "zz/top"]
CONFIGS = ["local", "server", None]
PATHS = ["/r/H/A/x/v1/x_v1.m", "/z/H/A/x/v1/x_v1.m", "/r/H/S/q1/v1/E/q1_o_v1.c", "/z/H/S/q1", "/r/H", "/q/H/A"]
SEARCHES = ["h/a/*", "h/s,a/*", "h/*/**/y", "h/s/q1/v1/**", "h/a/x/v1/m", "bla?x=y"]


def _bare(f):
    while hasattr(f, "__wrapped__"):
        f = f.__wrapped__
    return f


def _expected_path(sid, c):
    try:
        return _bare(type(sid).path)(sid, c)
    except Exception as e:            # pragma: no cover
        return ("exc", type(e).__name__)


def entry_path(c1: int, c2: int, k1: bool, k2: bool) -> bool:
    """
    sid.path(c1) then sid.path(c2), positionally or by keyword: each equals the uncached evaluation.
    pre: 0 <= c1 < 3 and 0 <= c2 < 3
    post: _
    """
    env.clear_caches()
    i = IDX
    sid = Sid(SIDS[i])
    for c, kw in ((CONFIGS[c1], k1), (CONFIGS[c2], k2)):
        got = sid.path(config=c) if kw else sid.path(c)
        want = _expected_path(sid, c)
        if (None if got is None else str(got)) != (None if want is None else str(want)):
            return fail("path-depends-on-history")
    return True


def entry_from_path(i: int, c1: int, c2: int) -> bool:
    """
    Sid(path=p, config=c1) then Sid(path=p, config=c2): each equals the uncached evaluation.
    pre: 0 <= i < 6 and 0 <= c1 < 3 and 0 <= c2 < 3
    post: _
    """
    env.clear_caches()
    p = PATHS[i]
    for c in (CONFIGS[c1], CONFIGS[c2]):
        got = Sid(path=p, config=c)
        t, f = _bare(fs_resolver.path_to_dict)(p, config=c)
        if (got.type or None) != t:
            return fail("Sid(path)-type-depends-on-history")
        if dict(got.fields) != dict(f or {}):
            return fail("Sid(path)-fields-depend-on-history")
    return True


def entry_path_to_dict(i: int, c1: int, c2: int, mode1: int, mode2: int) -> bool:
    """
    path_to_dict(p[, config]) twice with different passing styles: results equal the bare function, and the
    returned dictionaries are not aliased to a shared cached object that a later call mutates.
    pre: 0 <= i < 6 and 0 <= c1 < 3 and 0 <= c2 < 3 and 0 <= mode1 < 2 and 0 <= mode2 < 2
    post: _
    """
    env.clear_caches()
    p = PATHS[i]
    outs = []
    for c, m in ((CONFIGS[c1], mode1), (CONFIGS[c2], mode2)):
        got = fs_resolver.path_to_dict(p, config=c) if m == 0 else fs_resolver.path_to_dict(p, None, c)
        outs.append((got, c))
    for got, c in outs:
        want = _bare(fs_resolver.path_to_dict)(p, config=c)
        if got[0] != want[0] or (dict(got[1]) if got[1] else None) != (dict(want[1]) if want[1] else None):
            return fail("path_to_dict-depends-on-history")
    return True


def entry_unfold(e1: bool, e2: bool, u1: bool, u2: bool) -> bool:
    """
    unfold_search(s, do_uniquify, do_extrapolate) twice with different flags / passing styles.
    post: _
    """
    env.clear_caches()
    s = SEARCHES[IDX]
    kw1, kw2 = bool(KW1), bool(KW2)
    for (u, e, kw) in ((u1, e1, kw1), (u2, e2, kw2)):
        try:
            got = unfold_search(s, do_uniquify=u, do_extrapolate=e) if kw else unfold_search(s, u, e)
            got = [x.uri for x in got]
        except Exception as ex:
            got = ("exc", type(ex).__name__)
        try:
            want = [x.uri for x in _bare(unfold_search)(s, u, e)]
        except Exception as ex:
            want = ("exc", type(ex).__name__)
        if got != want:
            return fail("unfold_search-depends-on-history")
    return True


def entry_sid_shared(i: int, j: int) -> bool:
    """
    Two Sids built from the same / related strings do not share mutable state visible through the API:
    mutating what one call returned does not change what the next call returns.
    pre: 0 <= i < 7 and 0 <= j < 7
    post: _
    """
    env.clear_caches()
    a = Sid(SIDS[i])
    snap = (a.type, a.string, dict(a.fields))
    d = a.fields
    d["p"] = "MUTATED"
    d["new"] = "x"
    b = Sid(SIDS[j])
    b.fields.clear()
    c = Sid(SIDS[i])
    if (c.type, c.string, dict(c.fields)) != snap or (a.type, a.string, dict(a.fields)) != snap:
        return fail("sid-state-leaks-through-cache")
    return True


# ------------------------------------------------------------------------------------------------
# call alphabet: every ordered pair / triple of read-only calls; the later call must answer what it
# answers in a fresh cache state.  Where an oracle independent of any history exists it is used as well
# (configured roots of the two path configurations).
from spil import FindInList  # noqa: E402

ROOTS = {"local": "/r", "server": "/z", None: "/r"}
if env.CONF == "shipped":
    ROOTS = None


def _desc(sid):
    return ("sid", sid.type, sid.string, tuple(sid.fields.items()))


def _safe(f):
    try:
        return f()
    except Exception as e:
        return ("exc", type(e).__name__)


_MULTI = "h/a/x/v1/*"          # accepted by a__f and a__g
_MULTI_S = "h/s/q1/v1/*"       # accepted by s__f, s__c and s__o
CALLS = [
    ("Sid(str multi)", lambda: _desc(Sid(_MULTI))),
    ("Sid(uri a__g)", lambda: _desc(Sid("a__g:" + _MULTI))),
    ("Sid(Sid(uri a__g))", lambda: _desc(Sid(Sid("a__g:" + _MULTI)))),
    ("Sid(Sid(uri s__c))", lambda: _desc(Sid(Sid("s__c:" + _MULTI_S)))),
    ("Sid(str multi s)", lambda: _desc(Sid(_MULTI_S))),
    ("Sid(fields)", lambda: _desc(Sid(fields={"version": "v1", "p": "h", "n": "x", "t": "a"}))),
    ("Sid(query)", lambda: _desc(Sid(query="p=h&t=s&q=q1"))),
    ("Sid(str?query)", lambda: _desc(Sid("h/a/x?version=v2"))),
    ("Sid(path local)", lambda: _desc(Sid(path="/r/H/A/x/v1/x_v1.m", config="local"))),
    ("Sid(path local, server cfg)", lambda: _desc(Sid(path="/r/H/A/x/v1/x_v1.m", config="server"))),
    ("Sid(path server)", lambda: _desc(Sid(path="/z/H/S/q1/v1/E/q1_v1.c", config="server"))),
    ("Sid(path server, default cfg)", lambda: _desc(Sid(path="/z/H/S/q1/v1/E/q1_v1.c"))),
    ("path(local)", lambda: str(Sid("h/a/x/v1/m").path("local"))),
    ("path(server)", lambda: str(Sid("h/a/x/v1/m").path("server"))),
    ("path(config=server)", lambda: str(Sid("h/a/x/v1/m").path(config="server"))),
    ("path()", lambda: str(Sid("h/a/x/v1/m").path())),
    ("path(g uri, server)", lambda: str(Sid("a__g:h/a/x/v1/g").path("server"))),
    ("unfold", lambda: sorted(s.uri for s in unfold_search("h/s,a/*"))),
    ("unfold extrapolate", lambda: sorted(s.uri for s in unfold_search("h/s,a/*", do_extrapolate=True))),
    ("unfold uniquify kw", lambda: sorted(s.uri for s in unfold_search("h/s,a/*", do_uniquify=True))),
    ("unfold uniquify kw false", lambda: [s.uri for s in unfold_search("h/s,a/*", do_uniquify=False)]),
    ("unfold extrapolate kw false", lambda: sorted(s.uri for s in unfold_search("h/s,a/*", do_extrapolate=False))),
    ("unfold positional extrapolate", lambda: sorted(s.uri for s in unfold_search("h/s,a/*", False, True))),
    ("unfold Sid object", lambda: sorted(s.uri for s in unfold_search(Sid("s__c:" + _MULTI_S)))),
    ("unfold str multi s", lambda: sorted(s.uri for s in unfold_search(_MULTI_S))),
    ("unfold plain branch s", lambda: sorted(s.uri for s in unfold_search("h/s/*"))),
    ("unfold plain branch a", lambda: sorted(s.uri for s in unfold_search("h/a/*"))),
    ("unfold alias", lambda: sorted(s.uri for s in unfold_search("h/a/x/v1/y"))),
    ("unfold alias member", lambda: sorted(s.uri for s in unfold_search("h/a/x/v1/b"))),
    ("fields mutation", lambda: (Sid(_MULTI).fields.update({"p": "X"}), _desc(Sid(_MULTI)))[1]),
    ("find in list", lambda: sorted(FindInList(["h/a/x", "h/a/y", "h/s/q1"]).find("h/a/*", as_sid=False))),
    ("match", lambda: Sid("h/a/x").match("h/*/x")),
    ("path(star f, local)", lambda: str(Sid(_MULTI).path("local"))),
    ("path(star g uri, local)", lambda: str(Sid("a__g:" + _MULTI).path("local"))),
    ("get_with removes a key", lambda: (str(Sid("h/a/x/v1/m").get_with(ext=None)), _desc(Sid("h/a/x/v1/m")))),
]
NCALLS = len(CALLS)


def _fresh(j):
    env.clear_caches()
    return _safe(CALLS[j][1])


EXPECTED = [_fresh(j) for j in range(NCALLS)]
env.clear_caches()


def _root_oracle(j, got) -> bool:
    if ROOTS is None:
        return True
    name = CALLS[j][0]
    if name in ("path(local)", "path()"):
        return got.startswith("/r/")
    if name in ("path(server)", "path(config=server)", "path(g uri, server)"):
        return got.startswith("/z/")
    if name in ("Sid(path local, server cfg)", "Sid(path server, default cfg)"):
        return got[1] == ""       # a path of the other configuration resolves to nothing
    if name in ("Sid(path local)", "Sid(path server)"):
        return got[1] != ""
    return True


def pair(j: int) -> bool:
    """
    History (CALLS[VF_IDX], CALLS[j]) from a fresh cache state: the second call answers what it answers alone.
    pre: 0 <= j < NCALLS
    post: _
    """
    j = _R2[j]
    env.clear_caches()
    _safe(CALLS[IDX][1])
    got = _safe(CALLS[j][1])
    if got != EXPECTED[j]:
        return fail("answer-depends-on-previous-call")
    if not _root_oracle(j, got):
        return fail("path-configuration-mixed-up")
    return True


def triple(j: int, k: int) -> bool:
    """
    History (CALLS[VF_IDX], CALLS[j], CALLS[k]).
    pre: 0 <= j < NCALLS and 0 <= k < NCALLS
    post: _
    """
    j, k = _R2[j], _R2[k]
    env.clear_caches()
    _safe(CALLS[IDX][1])
    _safe(CALLS[j][1])
    got = _safe(CALLS[k][1])
    if got != EXPECTED[k]:
        return fail("answer-depends-on-previous-calls")
    return _root_oracle(k, got) or fail("path-configuration-mixed-up")


_R2 = list(range(64))
