"""C17 -- an interrupted attribute write leaves the old or the new data, never a ruin (memfs crash injection)."""
from __future__ import annotations

import json

from xhair import env
from xhair.obl_util import fail, envint, envstr

env.setup()
env.const_sid_hash()

from xhair import memfs, globstub  # noqa: E402

memfs.install()
globstub.install()

from spil import Sid, conf, SpilException, WriteToPaths, GetFromPaths, FindInPaths  # noqa: E402

CONFIG = "local"
SID = envstr("VF_SID", "h/a/x/v1/m")
OTHER = envstr("VF_OTHER", "h/a/x/v2/m")
SEARCH = "/".join(SID.split("/")[:3] + ["*"] * (len(SID.split("/")) - 3))
if len(OTHER.split("/")) != len(SID.split("/")):
    SEARCH = "h/" + SID.split("/")[1] + "/**"
KEYS = ["comment", "author"]
VALS = ["x", "a much longer value than the others", 7, "é✓", {"inner": {"k": 1}}]
_R = list(range(64))
NEXT = envstr("VF_NEXT", "author")
NESTED = envint("VF_NESTED", 0)
FIRST = envint("VF_FIRST_WRITE", 0)      # 1: no side-car before the write (first write)


OLD_K, OLD_V = envint("VF_OLD_K", 0), envint("VF_OLD_V", 1)
NEW_K, NEW_V = envint("VF_NEW_K", 0), envint("VF_NEW_V", 0)
_STATE = None


def _setup(old_k: int, old_v: int):
    """the pre-state is built once, natively, through the real writer and restored for every symbolic path"""
    global _STATE
    if _STATE is None:
        _build(old_k, old_v)
        _STATE = memfs.snapshot()
    memfs.reset(_STATE)
    return WriteToPaths(CONFIG)


def _build(old_k: int, old_v: int):
    memfs.reset({})
    w = WriteToPaths(CONFIG)
    w.create(Sid(SID))
    w.create(Sid(OTHER))
    w.set(Sid(OTHER), comment="other entity")
    if not FIRST:
        w.set(Sid(SID), **{KEYS[old_k]: VALS[old_v], "keep": "kept"})
    return w


def _data(sid_str: str) -> dict:
    d = dict(GetFromPaths(CONFIG).get_data(Sid(sid_str)))
    d.pop("sid", None)
    return d


def crash(at: int, nbytes: int) -> bool:
    """
    The process dies before the effect number `at` of set(SID, new_k=new_v) (a write that dies stores only its first `nbytes`
    characters).  Afterwards: the data read for SID is the complete previous or the complete new data, the other Sid's data is
    untouched, and the next set on SID succeeds and reads back.
    (old and new values fixed per obligation: VF_OLD_K/V, VF_NEW_K/V.)
    pre: 0 <= at < 7 and (nbytes == 0 or nbytes == 1 or nbytes == 9 or nbytes == 30)
    post: _
    """
    old_k, old_v, new_k, new_v, at, nbytes = OLD_K, OLD_V, NEW_K, NEW_V, _R[at], _R[nbytes]
    w = _setup(old_k, old_v)
    old = _data(SID)
    other_before = _data(OTHER)
    new = dict(old)
    new[KEYS[new_k]] = json.loads(json.dumps(VALS[new_v]))
    if NESTED and nbytes == 30:
        # a torn write that ends exactly after the first closing brace of the (nested) text being written
        text = json.dumps(dict(new), indent=4, default=str)
        nbytes = text.index("}") + 1
    del memfs.LOG[:]
    memfs.CRASH_AT = at
    memfs.CRASH_BYTES = nbytes
    died = False
    try:
        w.set(Sid(SID), **{KEYS[new_k]: VALS[new_v]})
    except memfs.Crash:
        died = True
    memfs.CRASH_AT = -1
    got = _data(SID)
    if not died:
        if got != new:
            return fail("completed-write-not-read-back")
    elif got != old and got != new:
        return fail("after-crash-data-is-neither-old-nor-new")
    if _data(OTHER) != other_before:
        return fail("other-entity-changed")
    # the next write must succeed and be read back (VF_NEXT=shorten: it makes the data SHORTER than the interrupted write's)
    nk, nv = ("author", "after") if NEXT != "shorten" else (KEYS[new_k], "s")
    try:
        ok = w.set(Sid(SID), **{nk: nv})
    except Exception:
        return fail("next-write-fails-after-crash")
    after = _data(SID)
    if not ok or after.get(nk) != nv:
        return fail("next-write-not-read-back")
    base = got
    for k, v in base.items():
        if k != nk and after.get(k) != v:
            return fail("next-write-lost-surviving-data")
    try:
        ok2 = w.update(Sid(SID), {"n2": 2})
    except Exception:
        return fail("second-next-write-fails-after-crash")
    if not ok2 or _data(SID).get(nk) != nv:
        return fail("second-next-write-not-read-back")
    # a search over the folder still works and finds the entity
    globstub.UNIVERSE[:] = list(memfs.FS.keys())
    found = list(FindInPaths(CONFIG).find(SEARCH, as_sid=False))
    if SID not in found or OTHER not in found:
        return fail("search-after-crash-misses-entities")
    return True


EXCS = [PermissionError("denied"), FileNotFoundError("gone"), IsADirectoryError("dir"), OSError("io"), UnicodeDecodeError("utf-8", b"\xc3", 0, 1, "truncated"), ValueError("bad"), None]


MODE = envint("VF_MODE", 0)
CUT_LO = envint("VF_CUT_LO", 0)


def corrupt(cut: int, exc: int) -> bool:
    """
    The side-car of SID is damaged: mode 0 truncated after `cut` characters, 1 emptied, 2 replaced by a directory,
    3 unreadable (open / read raises EXCS[exc]).
    Reads of SID return just its 'sid' entry (or the data if the damage is harmless); the other Sid's read and a Getter
    search over both are unaffected and do not fail.
    (mode fixed per obligation; cut ranges over 20 positions from VF_CUT_LO.)
    pre: 0 <= cut < 20 and 0 <= exc < 6 and (MODE == 0 or cut == 0) and (MODE == 3 or exc == 0)
    post: _
    """
    mode, cut, exc = MODE, CUT_LO + _R[cut], _R[exc]
    _setup(OLD_K, OLD_V)
    p = Sid(SID).path(CONFIG)
    sc = str(conf.get_data_json_path(p))
    text = memfs.FS[sc]
    full = json.loads(text)
    if mode == 0:
        memfs.FS[sc] = text[:cut]
    elif mode == 1:
        memfs.FS[sc] = ""
    elif mode == 2:
        memfs.FS[sc] = None
    elif mode == 3:
        memfs.POISON[sc] = EXCS[exc]
    else:
        memfs.FS[sc] = "[1]" if cut % 2 else "null"
    g = GetFromPaths(CONFIG)
    try:
        got = dict(g.get_data(Sid(SID)))
    except Exception:
        return fail("read-of-damaged-sidecar-raises")
    sid_only = {"sid": SID}
    intact = dict(full, sid=SID)
    if mode == 0 and cut >= len(text):
        if got != intact:
            return fail("untruncated-sidecar-not-read")
    elif mode == 4:
        pass          # valid JSON of another shape: only required not to raise above
    elif got != sid_only:
        return fail("damaged-sidecar-does-not-read-as-sid-only")
    try:
        other = dict(g.get_data(Sid(OTHER)))
    except Exception:
        return fail("read-of-other-sid-raises")
    if other.get("comment") != "other entity":
        return fail("other-sid-data-affected")
    globstub.UNIVERSE[:] = list(memfs.FS.keys())
    try:
        recs = [dict(r) for r in g.get(SEARCH)]
    except Exception:
        return fail("getter-search-fails-on-damaged-sidecar")
    sids = [r.get("sid") for r in recs]
    if SID not in sids or OTHER not in sids:
        return fail("getter-search-misses-entities")
    return True


def reach(at: int) -> bool:
    """
    Twin: a crash actually happens for some effect index.
    pre: 0 <= at < 8
    post: _
    """
    w = _setup(OLD_K, OLD_V)
    del memfs.LOG[:]
    memfs.CRASH_AT = _R[at]
    try:
        w.set(Sid(SID), comment="new")
        return True
    except memfs.Crash:
        return False
    finally:
        memfs.CRASH_AT = -1


_setup(OLD_K, OLD_V)
