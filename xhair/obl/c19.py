"""C19 -- template extrapolation gives every level of every hierarchy one well-named type."""
from __future__ import annotations

from xhair import env
from xhair.obl_util import fail, envint, envstr

env.setup()

from spil.conf import util as conf_util  # noqa: E402
from spil.conf import sidtype_keytype_sep as SEP  # noqa: E402
from oracles.extrapolate_ref import extrapolate_ref, pattern_replace_ref  # noqa: E402

L = envint("VF_L", 3)            # chain length of the extrapolated type
OI = envint("VF_OI", 0)
BI = envint("VF_BI", 0)
SI = envint("VF_SI", 0)
SJ = envint("VF_SJ", 1)
# key-name orders; names deliberately collide with basetype names ('shot', 'a', 'ab')
ORDERS = [
    ["project", "type", "seq", "shot", "task", "version", "state", "ext", "x"],
    ["a", "b", "c", "ab", "shot", "s", "d", "e", "f"],
    ["shot", "a", "ab", "b", "asset", "t", "u", "v", "w"],
    ["p", "asset", "a", "shot", "ab", "c", "g", "h", "i"],
]
BASETYPES = ["shot", "asset", "a", "ab", "s"]
KEYTYPES = ["LAST", "file", "BASE", "movie_file"]   # LAST = the chain's last key, BASE = same word as the basetype


def _tpl(keys, closed_at=-1):
    parts = []
    for i, k in enumerate(keys):
        parts.append("{" + k + (":x" if i == closed_at else "") + "}")
    return "/".join(parts)


def extrapolate(kti: int, explicit_level: int, second: int, closed_at: int) -> bool:
    """
    extrapolate_templates == reference, for a generated configuration:
      chain = first L keys of ORDERS[oi]; extrapolated type BASETYPES[bi]__<KEYTYPES[kti]>; optionally an explicit
      intermediate type at level explicit_level (0 = none), optionally a second basetype ('other') sharing the first
      `second` keys (0 = none) and itself extrapolated; one placeholder optionally carries a ':x' expression.
    pre: 0 <= kti < 4
    pre: 0 <= explicit_level < L and 0 <= second < L and -1 <= closed_at < L
    post: _
    """
    oi, bi = OI, BI
    keys = ORDERS[oi][:L]
    base = BASETYPES[bi]
    kt = KEYTYPES[kti]
    kt = keys[-1] if kt == "LAST" else (base if kt == "BASE" else kt)
    name = base + SEP + kt
    templates = {}
    if explicit_level:
        templates[base + SEP + "mid"] = _tpl(keys[:explicit_level], closed_at)
    templates[name] = _tpl(keys, closed_at)
    to_ext = [name]
    if second:
        okeys = keys[:second] + ["z1", "z2"]
        templates["other" + SEP + "z2"] = _tpl(okeys, closed_at)
        to_ext.append("other" + SEP + "z2")
    if explicit_level != 1 and oi % 2 == 0:
        templates[base] = _tpl(keys[:1], closed_at)      # explicit root type, listed last
    got = conf_util.extrapolate_templates(dict(templates), list(to_ext))
    want = extrapolate_ref(dict(templates), list(to_ext), SEP)
    if list(got.keys()) != list(want.keys()):
        return fail("extrapolated-type-names-or-order")
    if list(got.values()) != list(want.values()):
        return fail("extrapolated-templates")
    # statement-level invariants, independent of the reference
    if len(set(got.values())) != len(got):
        return fail("duplicate-template")
    exp_keys = [k for k in templates]
    if [k for k in got if k in templates] != exp_keys:
        return fail("explicit-order-not-kept")
    for k in templates:
        if got[k] != templates[k]:
            return fail("explicit-template-changed")
    return True


def extrapolate_collide(kti: int, level: int, after: int, second: int) -> bool:
    """
    As `extrapolate`, with an EXPLICIT type that carries a name extrapolation would generate (basetype__<key of `level`>)
    but another template (a second hierarchy of the same basetype), configured before (after=0) or after (after=1) the
    extrapolated type: the explicit type keeps its template and its place, the name is not generated twice.
    pre: 0 <= kti < 4 and 1 <= level < L and 0 <= after <= 1 and 0 <= second < L
    post: _
    """
    oi, bi = OI, BI
    keys = ORDERS[oi][:L]
    base = BASETYPES[bi]
    kt = KEYTYPES[kti]
    kt = keys[-1] if kt == "LAST" else (base if kt == "BASE" else kt)
    name = base + SEP + kt
    clash = base + SEP + keys[level - 1]
    if clash == name:
        return True
    clash_tpl = _tpl(keys[:level - 1] + ["zz", keys[level - 1]])
    templates = {}
    if not after:
        templates[clash] = clash_tpl
    templates[name] = _tpl(keys)
    to_ext = [name]
    if second:
        okeys = keys[:second] + ["z1", "z2"]
        templates["other" + SEP + "z2"] = _tpl(okeys)
        to_ext.append("other" + SEP + "z2")
    if after:
        templates[clash] = clash_tpl
    got = conf_util.extrapolate_templates(dict(templates), list(to_ext))
    want = extrapolate_ref(dict(templates), list(to_ext), SEP)
    if list(got.keys()) != list(want.keys()):
        return fail("extrapolated-type-names-or-order")
    if list(got.values()) != list(want.values()):
        return fail("extrapolated-templates")
    if [k for k in got if k in templates] != list(templates):
        return fail("explicit-order-not-kept")
    for k in templates:
        if got[k] != templates[k]:
            return fail("explicit-template-changed")
    return True


def extrapolate_tagged(kti: int, second: int, tagpos: int, explicit: int) -> bool:
    """
    Two extrapolated hierarchies whose chains share their first `second` KEY NAMES but carry different tags at position
    tagpos ({k:a} vs {k:s}): their prefixes are different templates, each hierarchy gets its own types (optionally the
    first one declares the tagged level explicitly).
    pre: 0 <= kti < 4 and 2 <= second < L and 0 <= tagpos < second and 0 <= explicit <= 1
    post: _
    """
    oi, bi = OI, BI
    keys = ORDERS[oi][:L]
    base = BASETYPES[bi]
    kt = KEYTYPES[kti]
    kt = keys[-1] if kt == "LAST" else (base if kt == "BASE" else kt)
    name = base + SEP + kt

    def tpl(ks, tag):
        return "/".join("{" + k + (":" + tag if i == tagpos else "") + "}" for i, k in enumerate(ks))

    templates = {}
    if explicit:
        templates[base + SEP + "lvl"] = tpl(keys[:tagpos + 1], "a")
    templates[name] = tpl(keys, "a")
    okeys = keys[:second] + ["z1", "z2"]
    templates["other" + SEP + "z2"] = tpl(okeys, "s")
    to_ext = [name, "other" + SEP + "z2"]
    got = conf_util.extrapolate_templates(dict(templates), list(to_ext))
    want = extrapolate_ref(dict(templates), list(to_ext), SEP)
    if list(got.keys()) != list(want.keys()):
        return fail("extrapolated-type-names-or-order")
    if list(got.values()) != list(want.values()):
        return fail("extrapolated-templates")
    return True


SELECTORS = ["__", "a", "", "shot__", "b__f", "zz"]
NAMES = ["a__f", "shot__file", "b__f", "ab", "p", "shot"]


TXT = ["", "*", "a|b", "{t}"]


def replace(ni: int, nj: int, ti: int) -> bool:
    """
    pattern_replacing rewrites a template only for the types its selector matches; others stay identical.
    pre: 0 <= ni < 6 and 0 <= nj < 6 and ni != nj and 0 <= ti < 4
    post: _
    """
    txt = TXT[ti]
    si, sj = SI, SJ
    templates = {NAMES[ni]: "{p}/{t}/{n}", NAMES[nj]: "{p}/{t}"}
    snap = dict(templates)
    pats = {SELECTORS[si]: {"{p}": "{p:(h|" + txt + ")}", "{t}": "{t:a}"}, SELECTORS[sj]: {"{n}": "{n:\\d}", "{t:a}": "{t:b}"}}
    conf_util.pattern_replacing(templates, pats)
    want = pattern_replace_ref(snap, pats)
    if list(templates.items()) != list(want.items()):
        return fail("pattern-replacing-vs-reference")
    for name in snap:
        if not any(sel in name for sel in pats) and templates[name] != snap[name]:
            return fail("unselected-template-changed")
    return True


def same_function() -> bool:
    """
    PathConfig uses the very same pattern_replacing.
    post: _
    """
    from spil.sid.pathops import pathconfig
    return pathconfig.pattern_replacing is conf_util.pattern_replacing


def reach(oi: int, bi: int) -> bool:
    """
    Twin: at least two types are generated.
    pre: 0 <= oi < 4 and 0 <= bi < 5
    post: _
    """
    keys = ORDERS[oi][:L]
    name = BASETYPES[bi] + SEP + keys[-1]
    got = conf_util.extrapolate_templates({name: _tpl(keys)}, [name])
    return len(got) < 3
