"""C02 -- string, fields, query and uri forms of a typed Sid all denote the same Sid."""
from __future__ import annotations

from xhair import env
from xhair.obl_util import fail, envint, envstr

env.setup()

from spil import Sid, conf  # noqa: E402
from oracles import typing_ref  # noqa: E402

typing_ref.templates()
N = envint("VF_N", 4)
NMIN = envint("VF_NMIN", 0)
PRE = envstr("VF_PRE", "")   # concrete prefix / suffix: the string under test is PRE + t + SUF
SUF = envstr("VF_SUF", "")
ROT = envint("VF_ROT", 1)


def _same(a, b) -> bool:
    return a == b and a.type == b.type and a.string == b.string and a.fields == b.fields and list(a.fields) == list(b.fields)


def _typed(t: str):
    sid = Sid(PRE + t + SUF)
    return sid if sid else None


def canonical(t: str) -> bool:
    """
    The string of a typed Sid is its fields joined in template order; the uri is type:string.
    pre: NMIN <= len(t) <= N
    pre: '?' not in t and ':' not in t
    post: _
    """
    sid = _typed(t)
    if sid is None or "?" in sid.string:      # a refused query stays in the string (C04's subject)
        return True
    f = sid.fields
    if sid.string != "/".join(f.values()):
        return fail("string-not-canonical")
    if list(f.keys()) != typing_ref.keys_of(sid.type):
        return fail("fields-not-in-template-order")
    if sid.uri != sid.type + ":" + sid.string:
        return fail("uri-form")
    return True


def via_uri(t: str) -> bool:
    """
    Sid(sid.uri), Sid(sid) and sid.copy() rebuild an equal Sid with the same type, string and fields.
    pre: NMIN <= len(t) <= N
    pre: '?' not in t and ':' not in t
    post: _
    """
    sid = _typed(t)
    if sid is None:
        return True
    if not _same(Sid(sid.uri), sid):
        return fail("uri-roundtrip")
    if not _same(sid.copy(), sid):
        return fail("copy")
    if not _same(Sid(sid), sid):
        return fail("sid-of-sid")
    return True


def via_fields(t: str) -> bool:
    """
    Sid(fields=...) with the keys reversed and rotated by VF_ROT rebuilds an equal Sid.
    pre: NMIN <= len(t) <= N
    pre: '?' not in t and ':' not in t
    post: _
    """
    sid = _typed(t)
    if sid is None:
        return True
    items = list(sid.fields.items())
    if ROT == 0:
        perm = dict(reversed(items))
    else:
        k = ROT % len(items)
        perm = dict(items[k:] + items[:k])
    if not _same(Sid(fields=perm), sid):
        return fail("fields-permuted")
    return True


def _query_safe(s: str) -> bool:
    for ch in s:
        if ch in "&=+%#;?" or ch.isspace():
            return False
    return True


def query(t: str) -> bool:
    """
    Sid(query=sid.as_query()) == sid for non-empty values without whitespace or URL metacharacters.
    pre: NMIN <= len(t) <= N
    pre: ':' not in t and _query_safe(t)
    post: _
    """
    s = PRE + t + SUF
    sid = Sid(s)
    if not sid:
        return True
    for v in sid.fields.values():
        if v == "" or v[0] == "~":       # a LEADING '~' is the query syntax's own option prefix (reading rule)
            return True
    q = sid.as_query()
    back = Sid(query=q)
    if not _same(back, sid):
        return fail("query-roundtrip")
    back2 = Sid("?" + q)
    if not _same(back2, sid):
        return fail("query-string-roundtrip")
    return True


def eq(a: str, b: str) -> bool:
    """
    Two typed Sids are equal exactly when type and fields are equal.
    pre: len(a) <= N and len(b) <= N
    pre: '?' not in a and ':' not in a and '?' not in b and ':' not in b
    post: _
    """
    x, y = Sid(a), Sid(b)
    if not x or not y:
        return True
    same = x.type == y.type and x.fields == y.fields
    if (x == y) != same:
        return fail("eq-vs-type-fields")
    if same and x.string != y.string:
        return fail("same-fields-different-string")
    return True


def repr_form(t: str) -> bool:
    """
    repr(sid) is the constructor call on the uri's repr (so that eval(repr(sid)) rebuilds Sid(uri)).
    pre: NMIN <= len(t) <= N
    pre: '?' not in t and ':' not in t
    post: _
    """
    s = PRE + t + SUF
    sid = Sid(s)
    if not sid:
        return True
    return repr(sid) == "Sid(" + repr(sid.uri) + ")" or fail("repr-form")


def reach_forms(t: str) -> bool:
    """
    Twin: a typed Sid with >= 3 fields reaches the fields-rebuild branch.
    pre: NMIN <= len(t) <= N
    pre: '?' not in t and ':' not in t
    post: _
    """
    s = PRE + t + SUF
    sid = Sid(s)
    return not (bool(sid) and len(sid.fields) >= 3 and Sid(fields=dict(reversed(list(sid.fields.items())))) == sid)


ALPHABET = ["'", '"', chr(92), "\n", "\r", "\x00", "a", "{", "}", " ", "\u2028", "\t"]


def eval_repr(i: int, j: int) -> bool:
    """
    eval(repr(sid)) == sid.  eval() needs a concrete string, so the free value is drawn from a 12-letter
    alphabet of quote / escape / control characters by two symbolic indices (the solver enumerates them).
    pre: 0 <= i < 12 and 0 <= j < 13
    post: _
    """
    v = ALPHABET[i] + (ALPHABET[j] if j < 12 else "")
    sid = Sid(PRE + v)
    if not sid:
        return True
    back = eval(repr(sid), {"Sid": Sid})
    return _same(back, sid) or fail("eval-repr")
