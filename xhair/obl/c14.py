"""C14 -- Sids are immutable values: equal means same uri, and nothing can alter one."""
from __future__ import annotations

from xhair import env
from xhair.obl_util import fail, envint, envstr

env.setup()
env.stub_path()

from spil import Sid, conf  # noqa: E402
from oracles import typing_ref  # noqa: E402

typing_ref.templates()
N = envint("VF_N", 3)
PRE = envstr("VF_PRE", "")
SUF = envstr("VF_SUF", "")
SUF2 = envstr("VF_SUF2", SUF)         # suffix of the second Sid (e.g. a query that will be refused)
TYPES = [""] + list(conf.sid_templates.keys())
TI = envint("VF_TI", 0)
TJ = envint("VF_TJ", 0)
OP = envint("VF_OP", 0)


def _mk(ti: int, s: str):
    return Sid(TYPES[ti] + ":" + s) if ti else Sid(s)


def eq_uri(a: str, b: str) -> bool:
    """
    Two Sids (types forced by VF_TI / VF_TJ, 0 = natural) are equal exactly when their uris are equal.
    pre: len(a) <= N and len(b) <= N
    pre: '?' not in a and ':' not in a and '?' not in b and ':' not in b
    post: _
    """
    if env.CACHES:
        env.clear_caches()
    A, B = _mk(TI, PRE + a + SUF), _mk(TJ, PRE + b + SUF2)
    same = A.uri == B.uri
    if (A == B) != same or (B == A) != same:
        return fail("eq-vs-uri")
    if (A != B) == same:
        return fail("ne-vs-uri")
    return True


def eq_str(a: str, u: str) -> bool:
    """
    A Sid equals a plain string exactly when its string does (both operand orders).
    pre: len(a) <= N and len(u) <= N + 1
    pre: '?' not in a and ':' not in a
    post: _
    """
    A = _mk(TI, PRE + a + SUF)
    same = str(A) == PRE + u
    if (A == PRE + u) != same:
        return fail("sid-eq-str")
    if ((PRE + u) == A) != same:
        return fail("str-eq-sid")
    return True


def order(a: str, b: str) -> bool:
    """
    Sorting Sids orders them by string: `<` agrees with the strings, sorted() yields non-decreasing strings.
    pre: len(a) <= N and len(b) <= N
    pre: '?' not in a and ':' not in a and '?' not in b and ':' not in b
    post: _
    """
    A, B = _mk(TI, PRE + a + SUF), _mk(TJ, PRE + b + SUF)
    sa, sb = str(A), str(B)
    if (A < B) != (sa < sb):
        return fail("lt")
    if (B < A) != (sb < sa):
        return fail("lt-reflected")
    C = Sid(PRE + SUF)
    lst = sorted([A, B, C])
    strs = [str(x) for x in lst]
    if strs != sorted(strs):
        return fail("sorted-not-by-string")
    return True


POOL = ["h/a/x/v1/*", "a__g:h/a/x/v1/*", "a__f:h/a/x/v1/*", "h/s/q1/v1/*", "s__c:h/s/q1/v1/*", "s__o:h/s/q1/v1/*", "h", "p:h", "zz", "bogus:zz", "", "h/a/x?version=v1", "h/a/x/v1"]
_R = list(range(32))


def hash_set(i: int, j: int) -> bool:
    """
    Equal Sids hash equally; sets and dictionaries of Sids behave (pool of same-string / different-type Sids).
    pre: 0 <= i < 13 and 0 <= j < 13
    post: _
    """
    i, j = _R[i], _R[j]
    A, B = Sid(POOL[i]), Sid(POOL[j])
    if A == B:
        if hash(A) != hash(B):
            return fail("equal-sids-hash-differently")
        if len({A, B}) != 1 or {A: 1}.get(B) != 1:
            return fail("set-or-dict-of-equal-sids")
    else:
        if len({A, B}) != 2:
            return fail("set-of-different-sids")
    return True


def _snap(sid):
    return (sid._string, sid._type, dict(sid._fields), list(sid._fields.keys()))


def frozen(t: str, v: str) -> bool:
    """
    No public operation changes an existing Sid (operation VF_OP, with mutation attempts on what it returns).
    pre: len(t) <= N and len(v) <= 1
    pre: '?' not in t and ':' not in t
    post: _
    """
    if env.CACHES:
        env.clear_caches()
    sid = Sid(PRE + t + SUF)
    before = _snap(sid)
    uri, h = sid.uri, None
    keys = list(sid._fields.keys())
    k_last = keys[-1] if keys else "p"
    k_first = keys[0] if keys else "p"
    op = OP
    if op == 0:
        d = sid.fields
        if d is sid._fields:
            return fail("fields-returns-internal-dict")
        d[k_last] = v
        d["new"] = v
        d.pop(k_first, None)
    elif op == 1:
        r = sid.get_as(k_first)
        r.fields.clear()
        r2 = sid.get_as(k_last)
        r2.fields["x"] = v
    elif op == 2:
        sid.get_with(**{k_last: v})
        sid.get_with(key=k_first, value=v)
    elif op == 3:
        sid.get_with(**{k_last: None})
        sid.get_with(key=k_first, value=None)
        sid.get_with(zz=None)
    elif op == 4:
        sid.get_with(query=k_last + "=" + v + "x")
        sid.get_with(query="zz=1")
    elif op == 10:
        # queries made of optional ('~') values only, through get_with and as a string
        sid.get_with(query=k_last + "=~" + v + "x")
        sid.get_with(query=k_first + "=~" + v + "&" + k_last + "=~" + v)
        Sid(PRE + t + SUF + "?" + k_last + "=~" + v + "x")
    elif op == 5:
        p = sid.parent
        p.fields.clear()
        (sid / v).fields.clear()
        sid / None
    elif op == 6:
        sid.as_query()
        sid.copy().fields.clear()
        Sid(sid).fields.clear()
        sid.is_leaf()
        sid.is_search()
        sid.get(k_last)
        len(sid)
        sid.keytype
        sid.basetype
        str(sid)
    elif op == 7:
        sid.path("local")
        sid.path("server")
    elif op == 8:
        other = Sid(fields=dict(sid._fields)) if sid else Sid(PRE + t + SUF)
        other.get_with(**{k_last: None})
        other.fields.clear()
    elif op == 9:
        # a Sid built from a caller's dictionary (keys already in template order) must not keep that dictionary
        d = dict(sid._fields)
        if d:
            twin = Sid(fields=d)
            tb = _snap(twin)
            d[k_last] = v + "x"
            d["new"] = v
            d.pop(k_first, None)
            if _snap(twin) != tb:
                return fail("sid-shares-the-callers-dictionary")
            one = {k_first: sid._fields[k_first]}
            single = Sid(fields=one)
            sb = _snap(single)
            one[k_first] = v
            one.clear()
            if _snap(single) != sb:
                return fail("sid-shares-the-callers-dictionary")
    after = _snap(sid)
    if after != before:
        return fail("sid-changed-by-operation")
    if sid.uri != uri:
        return fail("uri-changed")
    if _snap(Sid(PRE + t + SUF)) != before:
        return fail("later-sids-of-that-string-changed")      # other Sids with the same string (shared cached state)
    return True


def reach(t: str, v: str) -> bool:
    """
    Twin: a typed Sid with >= 3 fields went through get_with(None).
    pre: len(t) <= N and len(v) <= 1
    pre: '?' not in t and ':' not in t
    post: _
    """
    sid = Sid(PRE + t + SUF)
    return not (bool(sid) and len(sid) >= 3 and bool(sid.get_with(**{sid.keytype: None})))
