"""C10 -- search results obey the algebra of the search syntax (relations between two or more real searches)."""
from __future__ import annotations

from xhair import env
from xhair.obl_util import fail, envint, envstr

env.setup()
env.const_sid_hash()

from spil import Sid, conf, FindInList, SpilException  # noqa: E402
from spil.sid.read.tools import unfold_search  # noqa: E402
from oracles import typing_ref  # noqa: E402

typing_ref.templates()
N = envint("VF_N", 1)
PRE = envstr("VF_PRE", "h/")
SUF = envstr("VF_SUF", "")
SEARCH = envstr("VF_SEARCH", "h/a/*")
DERIVED = envstr("VF_DERIVED", "")          # ';'-separated derived searches
EPRE = envstr("VF_EPRE", "")
KEY = envstr("VF_KEY", "")
VAL = envstr("VF_VAL", "")
MAXLEV = envint("VF_MAXLEV", 4)
ALT = envstr("VF_ALT", "")
JOIN = envstr("VF_JOIN", ",")           # the list separator as written: ',' or ', ' (alternatives are stripped)


def _tok(t: str) -> bool:
    for ch in t:
        if ch in ":&=+%#;?~,/" or ch.isspace():
            return False
    return True


def _U(s: str):
    """uris of unfold_search(s), or None when it raises SpilException."""
    try:
        return [x.uri for x in unfold_search(s)]
    except SpilException:
        return None


def _same(a, b) -> bool:
    for x in a:
        if x not in b:
            return False
    for x in b:
        if x not in a:
            return False
    return True


def _union(lists):
    out = []
    for l in lists:
        for x in l:
            if x not in out:
                out.append(x)
    return out


def comma(t: str) -> bool:
    """
    unfold(PRE + t,ALT + SUF) == unfold(PRE + t + SUF) U unfold(PRE + ALT + SUF)   (t a symbolic token, ALT a concrete alternative).
    pre: len(t) <= N and _tok(t)
    post: _
    """
    u = ALT
    both = _U(PRE + t + JOIN + u + SUF)
    a, b = _U(PRE + t + SUF), _U(PRE + u + SUF)
    if both is None or a is None or b is None:
        return True
    if len(both) != len(_union([both])):
        return fail("duplicates")
    return _same(both, _union([a, b])) or fail("comma-is-not-the-union")


def comma_last(t: str) -> bool:
    """
    The symbolic alternative comes LAST: unfold(PRE + ALT + JOIN + t) == unfold(PRE + ALT) U unfold(PRE + t)
    (JOIN is ',' or ', ': alternatives are stripped; t may be an alias, which is then not the first member of the list).
    pre: len(t) <= N and _tok(t)
    post: _
    """
    both = _U(PRE + ALT + JOIN + t)
    a, b = _U(PRE + ALT), _U(PRE + t)
    if both is None or a is None or b is None:
        return True
    if len(both) != len(_union([both])):
        return fail("duplicates")
    return _same(both, _union([a, b])) or fail("comma-is-not-the-union")


def alias(t: str) -> bool:
    """
    An alias equals the union of its members: unfold(PRE + t + SUF_alias) == U_m unfold(PRE + t + SUF_member)
    (VF_SUF holds the alias form, VF_DERIVED the ';'-separated member forms).
    pre: len(t) <= N and _tok(t)
    post: _
    """
    whole = _U(PRE + t + SUF)
    parts = [_U(PRE + t + d) for d in DERIVED.split(";")]
    if whole is None or any(p is None for p in parts):
        return True
    return _same(whole, _union(parts)) or fail("alias-is-not-the-union-of-members")


def _leaf_only(uris):
    out = []
    for u in uris:
        sid = Sid(u)
        leaf = conf.leaf_keys.get(sid.basetype)
        if sid.keytype == leaf:
            out.append(u)
    return out


def doublestar(t: str) -> bool:
    """
    unfold(PRE + t + '/**' + SUF) == U_{n=0..6} leaf-typed(unfold(PRE + t + '/*'*n + SUF)).
    pre: len(t) <= N and _tok(t)
    post: _
    """
    if t in conf.extension_alias:
        return True      # reading rule: an alias is only expanded as LAST segment (C07); 'alias/**' with zero levels is outside the relation
    whole = _U(PRE + t + "/**" + SUF)
    if whole is None:
        return True
    parts = []
    for n in range(0, MAXLEV + 1):
        p = _U(PRE + t + "/*" * n + SUF)
        if p is None:
            return True
        parts.append(_leaf_only(p))
    return _same(whole, _union(parts)) or fail("doublestar-is-not-the-union-of-star-levels")


# ------------------------------------------------------------------------------------------------
# list level: concrete (search, derived) pairs, symbolic entries

def _find(L, s):
    try:
        return list(FindInList(L).find(s, as_sid=False))
    except SpilException:
        return None


def list_union(a: str, b: str) -> bool:
    """
    find(L, SEARCH) == U_d find(L, d) for the derived searches d (comma alternatives / alias members / '*'-levels of '**').
    L = [EPRE+a, EPRE+b]; no duplicates in any result.
    pre: len(a) <= N and len(b) <= N
    post: _
    """
    L = [EPRE + a, EPRE + b]
    whole = _find(L, SEARCH)
    parts = [_find(L, d) for d in DERIVED.split(";")]
    if whole is None or any(p is None for p in parts):
        return True
    if len(whole) != len(_union([whole])):
        return fail("duplicates")
    return _same(whole, _union(parts)) or fail("search-is-not-the-union-of-derived-searches")


def _is_leaf_entry(x: str) -> bool:
    t, f = typing_ref.type_string(x)
    if not t:
        return True
    return list(f.keys())[-1] == conf.leaf_keys.get(t.split(conf.sidtype_keytype_sep)[0])


def list_filter(a: str, b: str) -> bool:
    """
    Appending the filter KEY=VAL (VF_DERIVED is SEARCH with the filter, or with a '*' replaced by the literal VAL)
    returns exactly the results of SEARCH whose field KEY equals VAL (typed entries).
    pre: len(a) <= N and len(b) <= N
    pre: '?' not in a + b and ':' not in a + b
    post: _
    """
    L = [EPRE + a, EPRE + b]
    base = _find(L, SEARCH)
    der = _find(L, DERIVED)
    if base is None or der is None:
        return True
    want = []
    for x in base:
        t, f = typing_ref.type_string(x)
        if t and f.get(KEY) == VAL and x not in want:
            want.append(x)
    typed_der = [x for x in der if typing_ref.type_string(x)[0]]
    return _same(typed_der, want) or fail("filtered-search-is-not-the-matching-subset")


def reach(t: str) -> bool:
    """
    Twin: the '**' search unfolds to at least two typed searches.
    pre: len(t) <= N and _tok(t)
    post: _
    """
    w = _U(PRE + t + "/**" + SUF)
    return w is None or len(w) < 2


def unfold_filter(t: str) -> bool:
    """
    Appending the filter KEY=VAL (VAL may be a ',' list or an alias) to the search PRE+t+SUF: every unfolded result is typed,
    carries no unapplied query, has its field KEY among the filter's values, and the result set equals the unfiltered
    results re-typed with KEY overlaid by each value (those that fit).
    pre: len(t) <= N and _tok(t)
    post: _
    """
    base = PRE + t + SUF
    vals = []
    for v in VAL.split(","):
        for m in (conf.extension_alias.get(v, [v]) if KEY in [x for x in conf.leaf_keys.values() if x] else [v]):
            if m not in vals:
                vals.append(m)
    try:
        filtered = unfold_search(base + "?" + KEY + "=" + VAL)
        plain = unfold_search(base)
    except SpilException:
        return True
    got = []
    for r in filtered:
        if not r:
            return fail("untyped-result")
        if "?" in r.string:
            return fail("unapplied-query-left-in-result")
        if r.get(KEY) not in vals:
            return fail("result-field-is-not-a-filter-value")
        got.append(r.uri)
    want = []
    for r0 in plain:
        for v in vals:
            r = Sid(r0.uri + "?" + KEY + "=" + v)
            if r and "?" not in r.string and r.uri not in want:
                # narrowing of the re-typed search, as unfold does
                nq = conf.basetyped_search_narrowing.get(r.basetype, "")
                if nq:
                    r = r.get_with(query=nq)
                if r and "?" not in r.string and r.uri not in want:
                    want.append(r.uri)
    return _same(got, want) or fail("filtered-unfold-is-not-the-overlaid-unfiltered-unfold")
