"""C03 -- parent, get_as and '/' navigate one consistent hierarchy."""
from __future__ import annotations

from xhair import env
from xhair.obl_util import fail, envint, envstr

env.setup()

from spil import Sid, conf  # noqa: E402
from oracles import typing_ref  # noqa: E402

typing_ref.templates()
N = envint("VF_N", 4)
NMIN = envint("VF_NMIN", 0)
PRE = envstr("VF_PRE", "")   # concrete prefix / suffix: the string under test is PRE + t + SUF
SUF = envstr("VF_SUF", "")
KI = envint("VF_KI", 0)          # key index for get_as
SEP = conf.sidtype_keytype_sep
ALL_KEYS = sorted({k for ks in conf.key_types.values() for k in ks})


def _prefix_ok(sub, sid, i: int) -> bool:
    items = list(sid.fields.items())
    if not sub:
        return fail("get_as-untyped")
    if list(sub.fields.items()) != items[: i + 1]:
        return fail("get_as-fields")
    if sub.string != "/".join(sid.string.split("/")[: i + 1]):
        return fail("get_as-string")
    return True


def get_as(t: str) -> bool:
    """
    get_as(k_i) for the key with index VF_KI: typed, fields = first i+1 items, string = '/'-prefix.
    pre: NMIN <= len(t) <= N
    pre: '?' not in t and ':' not in t
    post: _
    """
    sid = Sid(PRE + t + SUF)
    if not sid:
        return True
    keys = list(sid.fields.keys())
    if KI >= len(keys):
        return True
    return _prefix_ok(sid.get_as(keys[KI]), sid, KI)


def parent(t: str) -> bool:
    """
    parent == get_as(second-to-last key), one field less; naturally typed => parent / last == sid;
    a one-field Sid is its own parent; keytype / basetype / len coherent.
    pre: NMIN <= len(t) <= N
    pre: '?' not in t and ':' not in t
    post: _
    """
    sid = Sid(PRE + t + SUF)
    if not sid or "?" in sid.string:          # a refused query stays in the string (C04's subject)
        return True
    f = sid.fields
    keys = list(f.keys())
    if sid.keytype != keys[-1]:
        return fail("keytype")
    if sid.basetype != sid.type.split(SEP)[0]:
        return fail("basetype")
    if len(sid) != len(keys):
        return fail("len")
    p = sid.parent
    if len(keys) == 1:
        if not (p == sid and p.type == sid.type and p.fields == f):
            return fail("root-parent")
        return True
    if not _prefix_ok(p, sid, len(keys) - 2):
        return False
    if not (p == sid.get_as(keys[-2])):
        return fail("parent-vs-get_as")
    if len(p) != len(sid) - 1:
        return fail("parent-len")
    back = p / f[keys[-1]]
    if back.string != sid.string:
        return fail("div-string")
    if back != sid and Sid(sid.string).type == sid.type:
        return fail("div-roundtrip")      # '/' types its result naturally: asserted for naturally (first-match) typed Sids only (a query can build others)
    up = sid.get_with(**{keys[-1]: None})           # removing the last key is another way up ...
    if up != p or list(up.fields.items()) != list(p.fields.items()):
        return fail("get_with-last-None-is-not-the-parent")
    if list(sid.fields.items()) != list(f.items()) or len(sid) != len(keys) or sid.parent != p:
        return fail("sid-changed-by-navigation")     # ... and none of this alters the Sid itself
    return True


def walk(t: str) -> bool:
    """
    Walking parents reaches the one-field Sid in len-1 steps.
    pre: NMIN <= len(t) <= N
    pre: '?' not in t and ':' not in t
    post: _
    """
    sid = Sid(PRE + t + SUF)
    if not sid or "?" in sid.string:
        return True
    cur = sid
    n = len(sid)
    for _ in range(n - 1):
        cur = cur.parent
    if len(cur) != 1:
        return fail("walk-not-root")
    if cur.parent != cur:
        return fail("root-not-fixpoint")
    return True


def untyped(t: str) -> bool:
    """
    On an untyped Sid navigations return the empty Sid instead of failing.
    pre: NMIN <= len(t) <= N
    pre: '?' not in t and ':' not in t
    post: _
    """
    sid = Sid(PRE + t + SUF)
    if sid:
        return True
    e = Sid()
    k0 = ALL_KEYS[0]
    if sid.parent != e or sid.get_as(k0) != e or sid.get_as("") != e:
        return fail("untyped-nav")
    if sid.keytype is not None or sid.basetype is not None or len(sid) != 0 or sid.get(k0) is not None:
        return fail("untyped-attrs")
    if PRE + t + SUF != "" and sid.get_with(**{k0: "h"}) != e:
        return fail("untyped-get_with")
    if sid.is_leaf():
        return fail("untyped-leaf")
    return True


def missing_key(t: str, k: str) -> bool:
    """
    get_as / get on a key the Sid does not have: empty Sid / None, no exception (k symbolic, short).
    pre: NMIN <= len(t) <= N and len(k) <= 2
    pre: '?' not in t and ':' not in t
    post: _
    """
    sid = Sid(PRE + t + SUF)
    if not sid:
        return True
    if k in ALL_KEYS:
        return True
    return sid.get_as(k) == Sid() and sid.get(k) is None


def refused_query(t: str) -> bool:
    """
    A typed Sid that keeps a refused query in its string (C04) is still a typed Sid: keytype / basetype / len equal the last
    field name, the type prefix and the number of fields, and its parent has one field less.
    pre: NMIN <= len(t) <= N
    pre: ':' not in t
    post: _
    """
    sid = Sid(PRE + t + SUF)
    if not sid:
        return True
    keys = list(sid.fields.keys())
    if sid.keytype != keys[-1]:
        return fail("keytype")
    if sid.basetype != sid.type.split(SEP)[0]:
        return fail("basetype")
    if len(sid) != len(keys):
        return fail("len")
    if len(keys) > 1 and len(sid.parent) != len(keys) - 1:
        return fail("parent-len")
    return True


def reach(t: str) -> bool:
    """
    Twin: typed, >= 3 fields, parent / last == sid reached.
    pre: NMIN <= len(t) <= N
    pre: '?' not in t and ':' not in t
    post: _
    """
    sid = Sid(PRE + t + SUF)
    return not (bool(sid) and len(sid) >= 3 and sid.parent / sid.get(sid.keytype) == sid)
