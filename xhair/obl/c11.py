"""C11 -- all Finders give the same answer for the same data (file system = glob stub over a symbolic universe)."""
from __future__ import annotations

from xhair import env
from xhair.obl_util import fail, envint, envstr

env.setup()
env.const_sid_hash()
env.stub_path()

from xhair import globstub  # noqa: E402

globstub.install()

from spil import Sid, conf, FindInList, FindInPaths, FindInAll, SpilException  # noqa: E402
from oracles import typing_ref, glob_ref, unfold_ref  # noqa: E402
from spil.sid.pathops.pathconfig import get_path_config  # noqa: E402

typing_ref.templates()
N = envint("VF_N", 1)
SEARCH = envstr("VF_SEARCH", "h/a/*")
EPRE = envstr("VF_EPRE", "h/a/")
ESUF = envstr("VF_ESUF", "")
FIXED = [x for x in envstr("VF_FIXED", "").split(";") if x]      # concrete existing Sids
JUNK = [x for x in envstr("VF_JUNK", "").split(";") if x]        # concrete junk paths, '@' stands for the root
JPRE = envstr("VF_JPRE", "")                                     # symbolic junk: root-relative prefix
JSUF = envstr("VF_JSUF", "")
LISTLEG = envint("VF_LISTLEG", 1)
LISTFIRST = envint("VF_LISTFIRST", 0)
import os as _os  # noqa: E402

CONFIGS = list(conf.path_configs.keys())
ROOTS = {c: _os.path.commonprefix(list(get_path_config(c).path_templates.values())).split("{")[0].rstrip("/") for c in CONFIGS}
HAS_PATH = {c: set(get_path_config(c).path_templates.keys()) for c in ROOTS}
CONST_TYPES = [x for x in envstr("VF_CONST_TYPES", "p,a,s").split(",") if x]       # types the data configuration backs by constants
CONST_SIDS = [x for x in envstr("VF_CONST_SIDS", "h,h/a,h/s").split(",") if x]


def _name_ok(a: str) -> bool:
    """names of the claim: not empty, not starting with '.', no '/', no glob magic, no Sid syntax signs."""
    if a == "" or a.startswith("."):
        return False
    for ch in a:
        if ch in "/*?[]:,<>" or ch.isspace():
            return False
    return True


def _universe(entries, c: str, junk_name: str):
    paths = []
    kept = []
    for e in entries:
        sid = Sid(e)
        if not sid or sid.is_search() or sid.type not in HAS_PATH[c]:
            continue
        p = sid.path(c)
        if p is None:
            continue
        paths.append(str(p))
        kept.append(e)
    for j in JUNK:
        paths.append(j.replace("@", ROOTS[c]))
    if JPRE:
        paths.append(ROOTS[c] + JPRE + junk_name + JSUF)
    return kept, paths


def _typed_ancestors(kept):
    """(type, string) of every existing entity and of each of its typed ancestors (parent chain by field prefix)."""
    out = []
    for e in kept:
        t, f = typing_ref.type_string(e)
        if not t:
            continue
        keys = list(f.keys())
        for n in range(len(keys), 0, -1):
            sub = {k: f[k] for k in keys[:n]}
            if n == len(keys):
                tt = t
            else:
                types = typing_ref.type_fields(sub)
                if not types:
                    continue
                tt = types[0]
            item = (tt, "/".join(sub[k] for k in keys[:n]))
            if item not in out:
                out.append(item)
    return out


def _greater(a, b) -> bool:
    for x, y in zip(a, b):
        if x != y:
            return x > y
    return len(a) > len(b)


def _last(entries, index: int):
    best = []
    for e in entries:
        segs = e.split("/")
        pre, tail = segs[:index], segs[index:]
        placed = False
        for i, (p, t, _e) in enumerate(best):
            if p == pre:
                placed = True
                if _greater(tail, t):
                    best[i] = (pre, tail, e)
                break
        if not placed:
            best.append((pre, tail, e))
    return [e for (_p, _t, e) in best]


def _expected(kept):
    """what the search denotes over the existing entities and their ancestors, restricted to types with a path:
    typed search (t, s) finds the existing (t, e) with e glob-matching s; a '>' search keeps the greatest per group (C09)."""
    anc = _typed_ancestors(kept)
    try:
        forms = unfold_ref.unfold_ref(SEARCH)
    except unfold_ref.RefError:
        return None
    out = []
    gt = -1
    for (t, s) in forms:
        if t not in HAS_PATH[CONFIGS[0]]:
            continue
        segs = s.split("/")
        if ">" in segs:
            gt = segs.index(">")
        star = s.replace(">", "*")
        for (ta, e) in anc:
            if e in out:
                continue
            if ta == t and glob_ref.matches(star, e):
                out.append(e)
    if gt >= 0:
        out = _last(out, gt)
    return out


def _cmp(got, want, tag: str) -> bool:
    for g in got:
        if g not in want:
            return fail(tag + "-extra")
    for w in want:
        if w not in got:
            return fail(tag + "-missing")
    if len(got) != len(want):
        return fail(tag + "-duplicates")
    return True


def paths_agree(i: int, k: int) -> bool:
    """
    Existing entities: EPRE+a+ESUF (symbolic name) and the FIXED ones, materialised as a local and as a server tree
    through the real path(c), plus junk paths (concrete JUNK and a symbolic junk name j).
    FindInPaths('local'), FindInPaths('server') == the reference list search over the same entities; junk changes nothing.
    The symbolic name and junk part are single characters chr(i), chr(k) (every code point): all offsets stay concrete.
    pre: 0 <= i <= 0x10FFFF and 0 <= k <= 0x10FFFF
    post: _
    """
    a, j = chr(i), chr(k)
    if not _name_ok(a) or j == "/":
        return True
    entries = [EPRE + a + ESUF] + FIXED
    want = None
    if LISTFIRST:
        # the list Finder answers the search FIRST (spil's caches ON), the file-system Finders afterwards
        env.clear_caches()
        kept0, _p = _universe(entries, CONFIGS[0], j)
        try:
            list(FindInList([e for (_t, e) in _typed_ancestors(kept0)]).find(SEARCH, as_sid=False))
        except SpilException:
            pass
    for c in CONFIGS:
        kept, paths = _universe(entries, c, j)
        globstub.UNIVERSE[:] = paths
        if want is None:
            want = _expected(kept)
            if want is None:
                return True
        try:
            got = list(FindInPaths(c).find(SEARCH, as_sid=False))
        except SpilException:
            return fail("spilexception")
        if not _cmp(got, want, c):
            return False
    if LISTLEG:
        # "... FindInList over the corresponding list of Sids": the existing entities and their typed ancestors, as strings
        lst = [e for (_t, e) in _typed_ancestors(kept) if _t in HAS_PATH[CONFIGS[0]]]
        try:
            got = list(FindInList(lst).find(SEARCH, as_sid=False))
        except SpilException:
            return fail("spilexception")
        if not _cmp(got, want, "list"):
            return False
    return True


def all_agree(i: int) -> bool:
    """
    FindInAll over its configured sources (constants for the project / type levels, FindInPaths otherwise) answers like
    the reference list search (levels backed by constants are answered from those constants).
    pre: 0 <= i <= 0x10FFFF
    post: _
    """
    a = chr(i)
    if not _name_ok(a):
        return True
    entries = [EPRE + a + ESUF] + FIXED
    kept, paths = _universe(entries, CONFIGS[0], "")
    globstub.UNIVERSE[:] = paths
    want = _expected(kept)
    if want is None:
        return True
    try:
        forms = unfold_ref.unfold_ref(SEARCH)
    except unfold_ref.RefError:
        return True
    # constants-backed levels: project 'h', types 'a' / 's' always exist
    for (t, s) in forms:
        if t in CONST_TYPES:
            for cand in CONST_SIDS:
                if glob_ref.matches(s, cand) and typing_ref.type_string(cand)[0] == t and cand not in want:
                    want.append(cand)
    got = list(FindInAll().find(SEARCH, as_sid=False))
    return _cmp(got, want, "all")


def reach(i: int) -> bool:
    """
    Twin: FindInPaths finds at least two Sids.
    pre: 0 <= i <= 0x10FFFF
    post: _
    """
    a, j = chr(i), "q"
    if not _name_ok(a):
        return True
    kept, paths = _universe([EPRE + a + ESUF] + FIXED, CONFIGS[0], j)
    globstub.UNIVERSE[:] = paths
    return len(list(FindInPaths(CONFIGS[0]).find(SEARCH, as_sid=False))) < 2


def magic_name(i: int) -> bool:
    """
    An existing entity whose name contains glob magic, 'x[' + chr(i) + ']': FindInPaths finds it by its own Sid like the list search does.
    (On the pinned tree this is the known finding C11-glob-magic: the value is handed to glob unescaped.)
    pre: 0 <= i <= 0x10FFFF
    post: _
    """
    c = chr(i)
    if c in "/*?[]:,<>!^-\\" or c.isspace() or c == "":
        return True
    e = EPRE + "x[" + c + "]" + ESUF
    kept, paths = _universe([e], CONFIGS[0], "")
    if not kept:
        return True
    globstub.UNIVERSE[:] = paths
    got = list(FindInPaths(CONFIGS[0]).find(e, as_sid=False))
    return (e in got) or fail("entity-with-glob-magic-in-its-name-not-found-by-its-own-sid")
