"""C08 -- searching a list returns exactly the entries that glob-match the search."""
from __future__ import annotations

from xhair import env
from xhair.obl_util import fail, envint, envstr

env.setup()
env.const_sid_hash()

from spil import Sid, conf, FindInList, SpilException  # noqa: E402
from spil.sid.read.tools import unfold_search  # noqa: E402
from spil.sid.read.finders import find_list  # noqa: E402
from oracles import typing_ref, unfold_ref, glob_ref  # noqa: E402

typing_ref.templates()
N = envint("VF_N", 3)
SEARCH = envstr("VF_SEARCH", "h/a/*")
PRE = envstr("VF_PRE", "")
PRE2 = envstr("VF_PRE2", "")
FIXED = envstr("VF_FIXED", "")         # an additional concrete entry

try:
    PATTERNS = [s for (_t, s) in unfold_ref.unfold_ref(SEARCH)]
except unfold_ref.RefError:
    PATTERNS = None


def _lst(*xs):
    out = [x for x in xs]
    if FIXED:
        out.append(FIXED)
    return out


def find1(a: str) -> bool:
    """
    FindInList([PRE+a (, FIXED)]).find(SEARCH): each matching entry once, nothing else (reference: segment-wise glob
    over the reference unfolding of SEARCH).
    pre: len(a) <= N
    post: _
    """
    L = _lst(PRE + a if PRE else a)
    try:
        got = list(FindInList(L).find(SEARCH, as_sid=False))
    except SpilException:
        return PATTERNS is None or fail("unexpected-spilexception")
    if PATTERNS is None:
        return fail("expected-spilexception")
    want = glob_ref.found(PATTERNS, L)
    for g in got:
        if g not in want:
            return fail("extra-entry")
    for w in want:
        if w not in got:
            return fail("missing-entry")
    if len(got) != len(want):
        return fail("duplicate-entry")
    return True


def find2(a: str, b: str) -> bool:
    """
    Two symbolic entries (they may be equal: duplicates in the list are yielded once).
    pre: len(a) <= N and len(b) <= N
    post: _
    """
    L = _lst(PRE + a if PRE else a, PRE2 + b if PRE2 else b)
    try:
        got = list(FindInList(L).find(SEARCH, as_sid=False))
    except SpilException:
        return PATTERNS is None or fail("unexpected-spilexception")
    if PATTERNS is None:
        return fail("expected-spilexception")
    want = glob_ref.found(PATTERNS, L)
    for g in got:
        if g not in want:
            return fail("extra-entry")
    for w in want:
        if w not in got:
            return fail("missing-entry")
    if len(got) != len(want):
        return fail("duplicate-entry")
    return True


def match1(a: str) -> bool:
    """
    Sid(e).match(SEARCH) is True exactly when e would be found by SEARCH in [e]  (typed, concrete e).
    pre: len(a) <= N
    pre: '?' not in a and ':' not in a
    post: _
    """
    e = PRE + a if PRE else a
    sid = Sid(e)
    if not sid or sid.is_search() or e.split("/")[-1] in conf.extension_alias:
        return True          # self must be a typed, concrete Sid (an alias as last value is a search form)
    try:
        got = sid.match(SEARCH)
    except SpilException:
        return PATTERNS is None or fail("unexpected-spilexception")      # a malformed search (e.g. two '**') raises, as find does
    if PATTERNS is None:
        return True
    want = len(glob_ref.found(PATTERNS, [e])) == 1
    return got == want or fail("match-vs-list-search")


def as_sid_same(a: str) -> bool:
    """
    as_sid=True yields Sids whose strings are the as_sid=False results (entries without the uri / query signs ':' '?').
    pre: len(a) <= N and ':' not in a and '?' not in a
    post: _
    """
    L = _lst(PRE + a if PRE else a)
    try:
        s1 = list(FindInList(L).find(SEARCH, as_sid=False))
        s2 = [str(x) for x in FindInList(L).find(SEARCH, as_sid=True)]
    except SpilException:
        return True
    return s1 == s2 or fail("as_sid-strings-differ")


def reach(a: str) -> bool:
    """
    Twin: something is found.
    pre: len(a) <= N
    post: _
    """
    try:
        return len(list(FindInList(_lst(PRE + a if PRE else a)).find(SEARCH, as_sid=False))) == 0
    except SpilException:
        return True
