"""C18 -- get_last, get_next and get_new implement a gap-free version workflow (miniA with a v\\d\\d\\d version pattern)."""
from __future__ import annotations

import os

os.environ.setdefault("MINI_VDIGITS", "3")

from xhair import env
from xhair.obl_util import fail, envint, envstr

env.setup()
env.const_sid_hash()

import hamlet_plugins.next_get  # noqa: E402  (the repository's plugin; imported lazily by the data configuration)
from spil import Sid, conf, FindInAll  # noqa: E402
from spil.sid.read.finders.find_glob import FindByGlob  # noqa: E402
from spil.sid.read.finders import find_all as _find_all  # noqa: E402
from oracles import typing_ref, glob_ref  # noqa: E402

typing_ref.templates()
PRE = envstr("VF_PRE", "h/a/x/")          # Sid = PRE + version + SUF
SUF = envstr("VF_SUF", "/m")
BASE = envstr("VF_BASE", "h/a/x")         # a Sid without version
DP = envstr("VF_DP", "00")                # concrete leading digits; the last digit is symbolic
DP2 = envstr("VF_DP2", "00")
STAR = envint("VF_STAR", 0)


def _digits(s: str) -> bool:
    return len(s) == 3 and all(c in "0123456789" for c in s)


class TypedList(FindByGlob):
    def __init__(self):
        self.items = []

    def star_search(self, search_sids, as_sid=False, do_sort=False):
        done = []
        for search in search_sids:
            for item in self.items:
                if item in done:
                    continue
                if glob_ref.matches(str(search), item) and typing_ref.type_string(item)[0] == search.type:
                    done.append(item)
                    yield Sid(item) if as_sid else item


STUB = TypedList()


def _with_stub(fn):
    old = _find_all.get_finder
    _find_all.get_finder = lambda sid, config=None: STUB
    try:
        return fn()
    finally:
        _find_all.get_finder = old


def _fmt(n: int) -> str:
    return "v" + ("00" + str(n))[-3:] if n < 1000 else "v" + str(n)


def next_of(i: int) -> bool:
    """
    get_next('version') of PRE+'v'+DP+chr(i)+SUF (leading digits VF_DP concrete, last digit symbolic): same Sid with
    version+1 in the configured format, every other field unchanged; beyond the last representable version: the empty Sid.
    pre: 48 <= i <= 57
    post: _
    """
    d = DP + chr(i)
    sid = Sid(PRE + "v" + d + SUF)
    if not sid:
        return fail("valid-version-not-typed")
    nxt = _with_stub(lambda: sid.get_next("version"))
    n = int(d)
    if n >= 999:
        return (nxt == Sid() and not nxt) or fail("beyond-last-version-not-empty")
    if not nxt:
        return fail("next-is-empty")
    if nxt.get("version") != _fmt(n + 1):
        return fail("next-version-value")
    if nxt.type != sid.type:
        return fail("next-type-changed")
    for k, v in sid.fields.items():
        if k != "version" and nxt.get(k) != v:
            return fail("next-other-field-changed")
    if len(nxt) != len(sid):
        return fail("next-field-count")
    return True


def next_any(i: int) -> bool:
    """
    get_next on a Sid whose version is 'v'+DP+<ANY character> (Unicode digits are accepted by \\d): never raises; result is
    empty or a valid Sid with a version matching the configured pattern.
    pre: 0 <= i <= 0x10FFFF
    post: _
    """
    v = "v" + DP + chr(i)
    if chr(i) in "/?:":
        return True
    sid = Sid(PRE + v + SUF)
    nxt = _with_stub(lambda: sid.get_next("version"))
    if not nxt:
        return True
    ver = nxt.get("version")
    return (ver is not None and len(ver) == 4 and ver[0] == "v" and _digits(ver[1:])) or fail("next-version-not-in-pattern")


def first_version() -> bool:
    """
    A Sid without version: get_next gives the first version; get_new with nothing existing likewise.
    post: _
    """
    STUB.items = []
    sid = Sid(BASE)
    nxt = _with_stub(lambda: sid.get_next("version"))
    if not nxt or str(nxt) != BASE + "/v001":
        return fail("first-version")
    new = _with_stub(lambda: sid.get_new("version"))
    if not new or str(new) != BASE + "/v001":
        return fail("get_new-first-version")
    # the same question through a '*' / '>' version Sid of the skeleton, nothing existing: still the first version
    for sym in ("*", ">"):
        probe = Sid(PRE + sym + SUF)
        if not probe:
            continue
        got = _with_stub(lambda: probe.get_next("version"))
        if not got or got.get("version") != "v001":
            return fail("first-version-through-a-search-version")
    return True


def last_of(i: int, j: int) -> bool:
    """
    Existing versions v<DP><c>, v<DP2><d> (last digits symbolic, possibly equal): get_last('version') is the greatest existing.
    pre: 48 <= i <= 57 and 48 <= j <= 57
    post: _
    """
    a, b = DP + chr(i), DP2 + chr(j)
    e1, e2 = PRE + "v" + a + SUF, PRE + "v" + b + SUF
    STUB.items = [e1, e2]
    hi = a if int(a) >= int(b) else b
    last = _with_stub(lambda: Sid(e1).get_last("version"))
    if str(last) != PRE + "v" + hi + SUF:
        return fail("get_last-not-greatest")
    if SUF == "":
        # a Sid WITHOUT a version of its own (the level above): the same answer
        top = _with_stub(lambda: Sid(BASE).get_last("version"))
        if str(top) != PRE + "v" + hi:
            return fail("get_last-from-a-sid-without-version")
    STUB.items = []
    none = _with_stub(lambda: Sid(e1).get_last("version"))
    if none != Sid() or none:
        return fail("get_last-nothing-existing-not-empty")
    return True


def new_of(i: int) -> bool:
    """
    Existing versions: v<DP><c> (c symbolic) and the lower v000.  Probe VF_STAR: 0 the Sid itself with get_new, 1 a '*' version,
    2 a '>' version with get_next, 3 a Sid whose own (concrete) version does not exist with get_new: the successor of the last existing one, not existing yet, every other field unchanged,
    or the empty Sid beyond v999.
    pre: i == 48 or i == 53 or i == 56 or i == 57
    post: _
    """
    a, star = DP + chr(i), STAR
    e1, e0 = PRE + "v" + a + SUF, PRE + "v000" + SUF
    STUB.items = [e0, e1]
    sid = Sid(e0)
    probe = [sid, Sid(PRE + "*" + SUF), Sid(PRE + ">" + SUF), Sid(PRE + "v500" + SUF)][star]     # 3: a Sid whose own version does not exist
    new = _with_stub(lambda: probe.get_new("version")) if star in (0, 3) else _with_stub(lambda: probe.get_next("version"))
    n = int(a)
    if n >= 999:
        return (not new) or fail("beyond-last-version-not-empty")
    if not new:
        return fail("new-is-empty")
    if new.get("version") != _fmt(n + 1):
        return fail("new-is-not-successor-of-last")
    if str(new) in STUB.items:
        return fail("new-already-exists")
    for k, v in sid.fields.items():
        if k != "version" and new.get(k) != v:
            return fail("new-other-field-changed")
    return True


def publish(i: int) -> bool:
    """
    Inductive publish step: existing {v<DP><c>} (c symbolic); new = get_new; publish it; get_new again is strictly greater
    (or empty beyond v999) and never an existing version.
    pre: i == 48 or i == 56 or i == 57
    post: _
    """
    a = DP + chr(i)
    e1 = PRE + "v" + a + SUF
    STUB.items = [e1]
    sid = Sid(e1)
    new = _with_stub(lambda: sid.get_new("version"))
    n = int(a)
    if n >= 999:
        return (not new) or fail("beyond-last-version-not-empty")
    if not new or new.get("version") != _fmt(n + 1):
        return fail("new-is-not-successor-of-last")
    STUB.items = [e1, str(new)]
    again = _with_stub(lambda: sid.get_new("version"))
    if n + 1 >= 999:
        return (not again) or fail("beyond-last-version-not-empty-2")
    if not again or again.get("version") != _fmt(n + 2):
        return fail("second-publish-not-strictly-increasing")
    if str(again) in STUB.items:
        return fail("version-reused")
    return True


def publish_star(i: int, which: int) -> bool:
    """
    The same through a '*' / '>' version Sid and get_next (spil's caches ON): get_next, publish it, get_next again.
    pre: (i == 48 or i == 56 or i == 57) and 0 <= which <= 1
    post: _
    """
    env.clear_caches()
    a = DP + chr(i)
    e1 = PRE + "v" + a + SUF
    STUB.items = [e1]
    probe = Sid(PRE + ["*", ">"][which] + SUF)
    new = _with_stub(lambda: probe.get_next("version"))
    n = int(a)
    if n >= 999:
        return (not new) or fail("beyond-last-version-not-empty")
    if not new or new.get("version") != _fmt(n + 1):
        return fail("next-of-star-is-not-successor-of-last")
    STUB.items = [e1, str(new)]
    again = _with_stub(lambda: probe.get_next("version"))
    if n + 1 >= 999:
        return (not again) or fail("beyond-last-version-not-empty-2")
    if not again or again.get("version") != _fmt(n + 2):
        return fail("next-of-star-stale-after-publish")
    return True


def reach(i: int) -> bool:
    """
    Twin.
    pre: 48 <= i <= 57
    post: _
    """
    d = DP + chr(i)
    sid = Sid(PRE + "v" + d + SUF)
    return not bool(_with_stub(lambda: sid.get_next("version")))
