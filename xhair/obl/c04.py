"""C04 -- updating a Sid by query or get_with is all-or-nothing and never guesses."""
from __future__ import annotations

from xhair import env
from xhair.obl_util import fail, envint, envstr

env.setup()

from spil import Sid, conf  # noqa: E402
from spil.sid.core import query_helper  # noqa: E402
from oracles import typing_ref, overlay_ref  # noqa: E402

typing_ref.templates()
N = envint("VF_N", 2)
BASE = envstr("VF_BASE", "h/a/x")           # concrete typed base Sid (string or uri)
KEYS = ["p", "t", "n", "q", "version", "o", "ext", "zz", "sid"]
if envstr("VF_KEYS", ""):
    KEYS = envstr("VF_KEYS", "").split(",")
KI = envint("VF_KI", 0)
KI2 = envint("VF_KI2", 1)
QPRE = envstr("VF_QPRE", "")                # concrete pairs in front of the symbolic ones ("k=v&")
SEP = envstr("VF_SEP", "&")                 # pair separator: '&' or '?' ("all ? can be used as &")
QLEAD = envstr("VF_QLEAD", "")              # leading / trailing separators, which the query syntax ignores
QTRAIL = envstr("VF_QTRAIL", "")
ENTRY = envstr("VF_ENTRY", "string")        # "string": Sid(base?query) ; "get_with": base.get_with(query=..)


def _val_ok(v: str) -> bool:
    """Values of the statement's family: non-empty, no URL metacharacters / whitespace; an optional ('~'-prefixed) value has no further '~'."""
    if v == "":
        return False
    for i, ch in enumerate(v):
        if ch in "&=+%#;?" or ch.isspace():
            return False
        if ch == ":" and ENTRY != "plain":
            return False       # after a uri's type prefix a ':' is text; in front of it, it would be the type separator
        if ch == "~" and i > 0 and v[0] == "~":
            return False       # '~' inside an optional ('~'-prefixed) value: outside the statement
    return True


def _apply(base, q: str):
    if ENTRY == "string":
        return Sid(base.uri + "?" + q)
    if ENTRY == "plain":
        return Sid(base.string + "?" + q)       # BASE is a plain, naturally typed string: the query is split off before any ':' is looked at
    return base.get_with(query=q)


def _check(base, q: str, got) -> bool:
    applied, et, ef, es = overlay_ref.apply(base.string, base.type, base.fields, q)
    if got.type != et:
        return fail("type")
    if list(got.fields.items()) != list(ef.items()):
        return fail("fields")
    if got.string != es:
        return fail("string")
    if applied and "?" in got.string:
        return fail("query-left-in-string")
    return True


def apply1(v: str) -> bool:
    """
    One pair k=v, k = KEYS[VF_KI], v symbolic: result as the decision table says.
    pre: len(v) <= N and _val_ok(v)
    post: _
    """
    base = Sid(BASE)
    q = QLEAD + QPRE + KEYS[KI] + "=" + v + QTRAIL
    return _check(base, q, _apply(base, q))


def apply2(v: str, w: str) -> bool:
    """
    Two pairs.
    pre: len(v) <= N and len(w) <= N and _val_ok(v) and _val_ok(w)
    post: _
    """
    base = Sid(BASE)
    q = QLEAD + QPRE + KEYS[KI] + "=" + v + SEP + KEYS[KI2] + "=" + w + QTRAIL
    return _check(base, q, _apply(base, q))


def blank(v: str) -> bool:
    """
    Any value at all (blank, metacharacters, whitespace): never raises; result is a Sid.
    pre: len(v) <= N
    post: _
    """
    base = Sid(BASE)
    got = _apply(base, KEYS[KI] + "=" + v)
    return isinstance(got, Sid)


def kw(v: str, none: bool) -> bool:
    """
    get_with(key=k, value=v) and get_with(**{k: v}): untyped, or exactly the overlaid fields; None removes the
    key (also when absent) and never raises.
    pre: len(v) <= N
    post: _
    """
    base = Sid(BASE)
    k = KEYS[KI]
    val = None if none else v
    want = dict(base.fields)
    if val is None:
        want.pop(k, None)
    else:
        want[k] = val
    for got in (base.get_with(key=k, value=val), base.get_with(**{k: val})):
        if got:
            if got.fields != want:
                return fail("kw-fields-differ-from-overlay")
            if got.string != "/".join(got.fields.values()):
                return fail("kw-string-not-canonical")
            if val is not None and "?" not in val and ":" not in val and Sid(got.uri) != got:
                return fail("kw-result-not-a-valid-sid")   # '?' and ':' have a meaning in the uri syntax (outside C04)
        else:
            if got.type != "" or (got.fields != {}):
                return fail("kw-untyped-with-fields")
    return True


def update_kernel(a: str, b: str, v: str, w: str) -> bool:
    """
    query_helper.update(d, q) == overlay oracle and d is not mutated (keys from a pool, values symbolic).
    pre: len(a) <= N and len(b) <= N and len(v) <= N and len(w) <= N
    pre: _val_ok(v) and _val_ok(w)
    post: _
    """
    d = {KEYS[KI]: a, KEYS[2]: b}
    snap = dict(d)
    q = KEYS[KI] + "=" + v + "&" + KEYS[KI2] + "=" + w
    got = query_helper.update(d, q)
    if d != snap:
        return fail("update-mutates-input")
    want = overlay_ref.overlay(snap, overlay_ref.parse_query(q))
    return got == want or fail("update-vs-overlay")


def reach(v: str) -> bool:
    """
    Twin: a query that changes the type is applied.
    pre: len(v) <= N and _val_ok(v)
    post: _
    """
    base = Sid(BASE)
    got = _apply(base, KEYS[KI] + "=" + v)
    return not (bool(got) and got.type != base.type and "?" not in got.string)
