"""C15 / C16 / C17 -- writer and getter over the in-memory file system model (xhair/memfs.py), real json."""
from __future__ import annotations

import json

from xhair import env
from xhair.obl_util import fail, envint, envstr

env.setup()
env.const_sid_hash()

from xhair import memfs  # noqa: E402

memfs.install()
import hamlet_plugins.next_get  # noqa: E402,F401   (imported lazily by the data configuration: must exist before tracing starts)

from spil import Sid, conf, SpilException, WriteToPaths, GetFromPaths, FindInPaths, GetFromAll  # noqa: E402
from spil.sid.pathops import write_paths, getter_paths  # noqa: E402

SIDS = ["h/a/x/v1/m", "h/a/x/v1/b", "h/a/x/v1/g", "h/a/x/v1", "h/a/x", "h/a/y/v1/m", "h/s/q1/v1/o", "h", "h/a/x.y/v1/m", "bogus/sid"]
KEYS = ["comment", "author", "sid"]
VALS = ["", "x", "a much longer value than the others", 7, None, "é✓"]
_R = list(range(64))
CONFIG = envstr("VF_CONFIG", "local")
SI = envint("VF_SI", 0)
OP = envstr("VF_OP", "set")


def _path(sid_str: str):
    p = Sid(sid_str).path(CONFIG)
    return None if p is None else str(p)


def _sidecar(p: str) -> str:
    """'.<name>' with the suffix replaced by '.data.json', next to the entity (written from the statement / config doc)."""
    d, name = p.rsplit("/", 1)
    name = "." + name
    i = name.rfind(".")
    if 0 < i < len(name) - 1:
        name = name[:i]
    return d + "/" + name + ".data.json"


def _ancestors(p: str):
    out = []
    parts = p.split("/")
    for i in range(2, len(parts)):
        out.append("/".join(parts[:i]))
    return out


def _seed(exists: bool, has_sidecar: bool, k1: int, v1: int, p: str):
    state = {}
    if exists:
        for a in _ancestors(p):
            state[a] = None
        state[p] = "" if "." in p.rsplit("/", 1)[1] else None
    stored = None
    if has_sidecar:
        for a in _ancestors(p):
            state[a] = None
        stored = {KEYS[k1]: VALS[v1]}
        state[_sidecar(p)] = json.dumps(stored, indent=4, default=str)
    state["/r/other/file.txt"] = "untouched"
    memfs.reset(state)
    return stored


def _read_sidecar(p: str):
    sc = _sidecar(p)
    if sc not in memfs.FS:
        return None
    try:
        return json.loads(memfs.FS[sc])
    except Exception:
        return "CORRUPT"


K1 = envint("VF_K1", 0)
V1 = envint("VF_V1", 2)
WK2 = envint("VF_WK2", 1)
WV2 = envint("VF_WV2", 3)
SJ = envint("VF_SJ", 1)


def step(exists: bool, has_sidecar: bool, wk: int, wv: int) -> bool:
    """
    One writer operation (VF_OP: set | update | create | create_data) on Sid #VF_SI from an arbitrary pre-state:
    the entity exists or not, its side-car is absent or holds {k1: v1}; written data {wk: wv, wk2: wv2}.
    Post-state = overlay in call order; create-existing / update-missing raise SpilException and change nothing;
    create makes all ancestors; a NEW GetFromPaths reads overlay + 'sid'; every other entry untouched.
    (stored pair and the second written pair are fixed per obligation: VF_K1, VF_V1, VF_WK2, VF_WV2.)
    pre: 0 <= wk < 3 and 0 <= wv < 6
    post: _
    """
    k1, v1, wk, wv, wk2, wv2 = K1, V1, _R[wk], _R[wv], WK2, WV2
    sid_str = SIDS[SI]
    sid = Sid(sid_str)
    p = _path(sid_str)
    data = {KEYS[wk]: VALS[wv], KEYS[wk2]: VALS[wv2]}
    w = WriteToPaths(CONFIG)
    if p is None:
        memfs.reset({"/r/other/file.txt": "untouched"})
        before = memfs.snapshot()
        try:
            if OP == "set":
                w.set(sid, attribute=KEYS[wk], value=VALS[wv])
            elif OP == "update":
                w.update(sid, data)
            else:
                w.create(sid, data if OP == "create_data" else None)
            return fail("no-path-but-no-spilexception")
        except SpilException:
            pass
        if memfs.snapshot() != before:
            return fail("failed-operation-changed-the-file-system")
        return GetFromPaths(CONFIG).get_data(sid) == {} or fail("no-path-but-data")
    stored = _seed(exists, has_sidecar, k1, v1, p)
    before = memfs.snapshot()
    expect_fail = (OP in ("set", "update") and not exists) or (OP in ("create", "create_data") and exists)
    try:
        if OP == "set":
            data = {}
            if KEYS[wk2] != "sid":
                data[KEYS[wk2]] = VALS[wv2]
            data[KEYS[wk]] = VALS[wv]          # set(): the attribute/value pair is applied after the keyword pairs
            if KEYS[wk2] != "sid":
                r = w.set(sid, attribute=KEYS[wk], value=VALS[wv], **{KEYS[wk2]: VALS[wv2]})
            else:
                r = w.set(sid, attribute=KEYS[wk], value=VALS[wv])
        elif OP == "update":
            r = w.update(sid, data)
        elif OP == "create_data":
            r = w.create(sid, data)
        else:
            r = w.create(sid)
        if expect_fail:
            return fail("expected-spilexception")
    except SpilException:
        if not expect_fail:
            return fail("unexpected-spilexception")
        if memfs.snapshot() != before:
            return fail("failed-operation-changed-the-file-system")
        return True
    if r is not True:
        return fail("operation-did-not-return-true")
    # post-state
    if p not in memfs.FS:
        return fail("entity-does-not-exist-after-operation")
    for a in _ancestors(p):
        if a not in memfs.FS or memfs.FS[a] is not None:
            return fail("ancestor-missing-after-operation")
    want = dict(stored or {})
    if OP != "create":
        want.update(data)
    got = _read_sidecar(p)
    if OP == "create" and not has_sidecar:
        if got is not None:
            return fail("create-without-data-wrote-a-sidecar")
    else:
        want_json = json.loads(json.dumps(want, default=str))
        if got != want_json:
            return fail("sidecar-is-not-the-overlay")
    allowed = set([p, _sidecar(p)] + _ancestors(p))
    after = memfs.snapshot()
    for k in set(before) | set(after):
        if k not in allowed and before.get(k, "<absent>") != after.get(k, "<absent>"):
            return fail("unrelated-entry-changed")
    read = GetFromPaths(CONFIG).get_data(sid)
    want_read = dict(json.loads(json.dumps(want if (OP != "create" or has_sidecar) else (stored or {}), default=str)))
    want_read["sid"] = str(sid)
    if dict(read) != want_read:
        return fail("read-back-differs-from-overlay")
    return True


def two_sids(sj: int, k: int, v: int, v2: int) -> bool:
    """
    Cross-entity interference: both Sids exist (created through the real writer), set k=v on #si then k=v2 on #sj; the data of #si
    changes only if the two paths differ by nothing more than the file extension (shared side-car).
    pre: 0 <= sj < 6 and 0 <= k < 2 and 1 <= v < 3 and (v2 == 0 or v2 == 2)
    post: _
    """
    si, sj, k, v, v2 = SI, _R[sj], _R[k], _R[v], _R[v2]
    a, b = Sid(SIDS[si]), Sid(SIDS[sj])
    memfs.reset({})
    w = WriteToPaths(CONFIG)
    w.create(a)
    if si != sj:
        try:
            w.create(b)
        except SpilException:
            pass       # b may already exist as an ancestor of a
    w.set(a, **{KEYS[k]: VALS[v]})
    before = dict(GetFromPaths(CONFIG).get_data(a))
    w.set(b, **{KEYS[k]: VALS[v2]})
    after = dict(GetFromPaths(CONFIG).get_data(a))
    pa, pb = _path(SIDS[si]), _path(SIDS[sj])
    same_but_ext = pa.rsplit(".", 1)[0] == pb.rsplit(".", 1)[0] and pa.rsplit("/", 1)[0] == pb.rsplit("/", 1)[0]
    if not same_but_ext and after != before:
        return fail("write-changed-another-entity")
    want_b = json.loads(json.dumps({KEYS[k]: VALS[v2]}, default=str))
    got_b = dict(GetFromPaths(CONFIG).get_data(b))
    if got_b.get(KEYS[k]) != want_b[KEYS[k]] and KEYS[k] != "sid":
        return fail("second-write-not-read-back")
    # existence: whatever exists has an existing parent
    for pth in list(memfs.FS):
        par = pth.rsplit("/", 1)[0]
        if par not in ("", "/r", "/z") and par not in memfs.FS:
            return fail("existing-path-without-parent")
    return True


POOL = [x for x in envstr("VF_POOL", "h/a/x;h/s/q1;h/a/x/v1/m;h/s/q1/v1/o/c;h/a/x/v1").split(";") if x]


def attr_readback(si: int, k: int, v: int) -> bool:
    """
    Data written to an entity reads back through every reading route: a new GetFromPaths, sid.get_attr and GetFromAll
    (both routed by the data configuration's get_getter_for); types configured with a Getter only.
    pre: 0 <= si < len(POOL) and 0 <= k < 2 and 0 <= v < 6
    post: _
    """
    si, k, v = _R[si], _R[k], _R[v]
    sid = Sid(POOL[si])
    memfs.reset({})
    w = WriteToPaths(CONFIG)
    w.create(sid)
    w.set(sid, **{KEYS[k]: VALS[v]})
    want = json.loads(json.dumps({KEYS[k]: VALS[v]}, default=str))[KEYS[k]]
    if GetFromPaths(CONFIG).get_data(sid).get(KEYS[k]) != want:
        return fail("getfrompaths-read-back")
    if sid.get_attr(KEYS[k]) != want:
        return fail("sid.get_attr-read-back")
    if GetFromAll().get_attr(sid, KEYS[k]) != want:
        return fail("getfromall-get_attr-read-back")
    d = GetFromAll().get_data(sid)
    if d.get(KEYS[k]) != want or d.get("sid") != str(sid):
        return fail("getfromall-get_data-read-back")
    # a second write of the SAME LENGTH within the same second, read through the same long-lived Getters
    v2 = {"": None, "x": "y", 7: 8}.get(VALS[v] if VALS[v] in ("", "x", 7) else "", None)
    if v2 is not None:
        w.set(sid, **{KEYS[k]: v2})
        if sid.get_attr(KEYS[k]) != v2 or GetFromAll().get_attr(sid, KEYS[k]) != v2 or GetFromAll().get_data(sid).get(KEYS[k]) != v2:
            return fail("second-write-of-the-same-length-not-read-back")
    return True


NAMES = ["a", "a.b", ".a", "a.", "a.b.c", "ab", "a.bb", "b.a"]


def sidecar_kernel(i: int, j: int) -> bool:
    """
    get_data_json_path (real pathlib): equal side-car paths imply the two names differ at most by the extension.
    pre: 0 <= i < 8 and 0 <= j < 8
    post: _
    """
    from pathlib import Path
    i, j = _R[i], _R[j]
    p1, p2 = Path("/r/d") / NAMES[i], Path("/r/d") / NAMES[j]
    s1, s2 = conf.get_data_json_path(p1), conf.get_data_json_path(p2)
    if s1 == s2 and p1.with_suffix("") != p2.with_suffix("") and p1 != p2:
        return fail("sidecar-collision-beyond-extension")
    if str(s1) != _sidecar(str(p1)):
        return fail("memfs-sidecar-model-differs-from-pathlib")
    return True


def reach(k1: int) -> bool:
    """
    Twin: an overwrite with merge happened.
    pre: 0 <= k1 < 3
    post: _
    """
    p = _path(SIDS[0])
    _seed(True, True, _R[k1], 1, p)
    WriteToPaths(CONFIG).set(Sid(SIDS[0]), comment="x")
    return _read_sidecar(p) is None
