"""
C01 -- a string is typed exactly as the configured templates say, else stays untyped.
Engine X obligations (real spil code, configuration VF_CONF, CrossHair).
"""
from __future__ import annotations

from xhair import env
from xhair.obl_util import fail, envint, envstr

env.setup()

from spil import Sid, conf  # noqa: E402
from oracles import typing_ref  # noqa: E402

typing_ref.templates()

N = envint("VF_N", 4)          # max length of the symbolic string
NMIN = envint("VF_NMIN", 0)
PRE = envstr("VF_PRE", "")   # concrete prefix / suffix: the string under test is PRE + t + SUF
SUF = envstr("VF_SUF", "")
TYPE_NAMES = list(conf.sid_templates.keys()) + ["bogus", ""]
TI = envint("VF_TI", 0)        # index into TYPE_NAMES for the uri family


def _check_against_oracle(sid, s: str, exp_type: str, exp_fields) -> bool:
    if exp_type:
        if sid.type != exp_type:
            return fail("type")
        got = sid.fields
        if list(got.keys()) != list(exp_fields.keys()):
            return fail("field-keys")
        for k in exp_fields:
            if got[k] != exp_fields[k]:
                return fail("field-values")
        if str(sid) != s or sid.string != s:
            return fail("string-not-input")
        if not bool(sid):
            return fail("typed-but-falsy")
        if len(sid) != len(exp_fields):
            return fail("len")
    else:
        if sid.type != "":
            return fail("untyped-has-type")
        if sid.fields != {}:
            return fail("untyped-has-fields")
        if len(sid) != 0:
            return fail("untyped-len")
        if bool(sid):
            return fail("untyped-truthy")
        if str(sid) != s:
            return fail("untyped-string-not-verbatim")
    return True


def total(t: str) -> bool:
    """
    Sid(s) never raises, for every string (any characters, ':' and '?' included).
    pre: NMIN <= len(t) <= N
    post: _
    """
    s = PRE + t + SUF
    sid = Sid(s)
    return isinstance(sid, Sid)


def oracle(t: str) -> bool:
    """
    Plain strings (no '?' and no ':'): type, fields, string, bool, len as the reference typer says.
    pre: NMIN <= len(t) <= N
    pre: '?' not in t and ':' not in t
    post: _
    """
    s = PRE + t + SUF
    sid = Sid(s)
    exp_type, exp_fields = typing_ref.type_string(s)
    return _check_against_oracle(sid, s, exp_type, exp_fields)


def uri(t: str) -> bool:
    """
    'type:string' forces that one template.  One obligation per type name (VF_TI).
    The string of the resulting Sid is the part after the prefix (reading rule, DESIGN section 3).
    pre: NMIN <= len(t) <= N
    pre: '?' not in t and ':' not in t
    post: _
    """
    s = PRE + t + SUF
    t = TYPE_NAMES[TI]
    sid = Sid(t + ":" + s)
    if t == "":
        exp_type, exp_fields = typing_ref.type_string(s)
    else:
        exp_type, exp_fields = typing_ref.type_string(s, forced=t)
    return _check_against_oracle(sid, s, exp_type, exp_fields)


def colons(t: str) -> bool:
    """
    Any number of ':' never raises: the part before the FIRST ':' forces the type, the rest is the string, kept verbatim
    (a free pattern may accept a ':' inside a segment); an unaccepted string is untyped, falsy, with no fields.
    pre: NMIN <= len(t) <= N
    pre: '?' not in t
    post: _
    """
    s = PRE + t + SUF if SUF else PRE + t
    sid = Sid(s)
    if ":" not in s:
        exp_type, exp_fields = typing_ref.type_string(s)
        return _check_against_oracle(sid, s, exp_type, exp_fields)
    forced, rest = s.split(":", 1)
    if forced == "":
        exp_type, exp_fields = typing_ref.type_string(rest)
    else:
        exp_type, exp_fields = typing_ref.type_string(rest, forced=forced)
    return _check_against_oracle(sid, rest, exp_type, exp_fields)


def reach_typed(t: str) -> bool:
    """
    Reachability twin: must be REFUTED (a typed Sid with >= 3 fields is reachable inside the bound).
    pre: NMIN <= len(t) <= N
    pre: '?' not in t and ':' not in t
    post: _
    """
    s = PRE + t + SUF
    sid = Sid(s)
    return not (sid.type != "" and len(sid) >= 3)
