"""C07 -- a search expression unfolds to exactly the typed searches its syntax denotes."""
from __future__ import annotations

from xhair import env
from xhair.obl_util import fail, envint, envstr

env.setup()
env.const_sid_hash()

from spil import Sid, conf, SpilException  # noqa: E402
from spil.sid.read.tools import unfold_search  # noqa: E402
from spil.sid.read.unfolders import or_op as or_mod, extensions as ext_mod  # noqa: E402
from oracles import typing_ref, unfold_ref  # noqa: E402

typing_ref.templates()
N = envint("VF_N", 2)
NMIN = envint("VF_NMIN", 0)
PRE = envstr("VF_PRE", "")
SUF = envstr("VF_SUF", "")


def _tok_ok(t: str) -> bool:
    """Tokens of the statement's family: no whitespace, no ':' and no URL metacharacters ('?' allowed: it starts a query)."""
    for ch in t:
        if ch in ":&=+%#;" or ch.isspace():
            return False
    return True


def _plain_ok(t: str) -> bool:
    return _tok_ok(t) and "?" not in t and "~" not in t


def exc(t: str) -> bool:
    """
    unfold_search(PRE+t+SUF) raises nothing but SpilException; every result is typed, has no '?' left, no duplicates.
    pre: NMIN <= len(t) <= N
    post: _
    """
    s = PRE + t + SUF
    try:
        res = unfold_search(s)
    except SpilException:
        return True
    seen = []
    for r in res:
        if not r:
            return fail("untyped-result")
        if "?" in r.string:
            return fail("unapplied-query-in-result")
        u = r.uri
        if u in seen:
            return fail("duplicate-result")
        seen.append(u)
    return True


def ref(t: str) -> bool:
    """
    unfold_search(PRE+t+SUF) == reference unfolder (as sets of (type, string)); SpilException exactly where the reference says.
    pre: NMIN <= len(t) <= N and _tok_ok(t)
    post: _
    """
    s = PRE + t + SUF
    if "~" in s:
        return True          # (several '?': the first splits off the query, the others are pair separators -- "all ? can be used as &")
    try:
        want = unfold_ref.unfold_ref(s)
        want_err = False
    except unfold_ref.RefError:
        want, want_err = [], True
    try:
        got = unfold_search(s)
        got_err = False
    except SpilException:
        got, got_err = [], True
    if want_err != got_err:
        return fail("spilexception-mismatch")
    gl = [(r.type, r.string) for r in got]
    for g in gl:
        if g not in want:
            return fail("extra-result")
    for w in want:
        if w not in gl:
            return fail("missing-result")
    if len(gl) != len(want):
        return fail("duplicate-or-count")
    return True


def kernel_or_path(a: str, b: str, c: str) -> bool:
    """
    or_on_path distributes ',' alternatives: ordered Cartesian product of the segments' alternatives.
    pre: len(a) <= N and len(b) <= N and len(c) <= N
    pre: '/' not in a and '/' not in b and '/' not in c
    pre: not any(ch.isspace() for ch in a + b + c)
    post: _
    """
    s = a + "/" + b + "/" + c
    got = or_mod.or_on_path(s)
    want = ["/".join(p) for p in unfold_ref.product([a.split(","), b.split(","), c.split(",")])]
    dedup = []
    for w in want:
        if w not in dedup:
            dedup.append(w)
    for g in got:
        if g not in dedup:
            return fail("or_on_path-extra")
    for w in dedup:
        if w not in got:
            return fail("or_on_path-missing")
    return True


def kernel_ext(t: str) -> bool:
    """
    handle_extension: aliases replaced by their members, result is the sorted set of alternatives.
    pre: len(t) <= N
    pre: not any(ch.isspace() for ch in t)
    post: _
    """
    got = ext_mod.handle_extension(t)
    if t == "":
        return got == ""
    want = sorted(set(unfold_ref.expand_alias_list(t, conf.extension_alias)))
    return got == ",".join(want) or fail("handle_extension")


def reach(t: str) -> bool:
    """
    Twin: at least two typed results.
    pre: NMIN <= len(t) <= N and _tok_ok(t)
    post: _
    """
    try:
        return len(unfold_search(PRE + t + SUF)) < 2
    except SpilException:
        return True


HIST = ["h/s,a/*", "h/s/*", "h/a/*", "h/a/x/v1/y", "h/a/x/v1/b", "h/a/x/v1/m", "h/s,a", "h/a", "h/s", "h/a,zz", "h/*/**/y", "h/a/**/m"]
_RH = list(range(16))


def history(i: int, j: int) -> bool:
    """
    With spil's caches ON: unfold_search(HIST[i]) first, then unfold_search(HIST[j]) still equals the reference
    (an earlier, related search must not leak into a later one).
    pre: 0 <= i < 12 and 0 <= j < 12
    post: _
    """
    i, j = _RH[i], _RH[j]
    env.clear_caches()
    try:
        unfold_search(HIST[i])
    except SpilException:
        pass
    try:
        want = unfold_ref.unfold_ref(HIST[j])
    except unfold_ref.RefError:
        return True
    try:
        got = [(r.type, r.string) for r in unfold_search(HIST[j])]
    except SpilException:
        return fail("spilexception-mismatch")
    for g in got:
        if g not in want:
            return fail("extra-result-after-earlier-search")
    for w in want:
        if w not in got:
            return fail("missing-result-after-earlier-search")
    return len(got) == len(want) or fail("duplicate-or-count")
