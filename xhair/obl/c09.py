"""C09 -- the '>' (last) operator returns the greatest entry of each group."""
from __future__ import annotations

from xhair import env
from xhair.obl_util import fail, envint, envstr

env.setup()
env.const_sid_hash()

from spil import Sid, conf, FindInList, SpilException  # noqa: E402
from spil.sid.read.finders.find_glob import FindByGlob  # noqa: E402
from oracles import typing_ref, unfold_ref, glob_ref  # noqa: E402

typing_ref.templates()
N = envint("VF_N", 1)
SEARCH = envstr("VF_SEARCH", "h/a/>/*")
PRE = envstr("VF_PRE", "h/a/")
MID = envstr("VF_MID", "/")
FIXED = envstr("VF_FIXED", "")
INDEX = envint("VF_INDEX", 2)

try:
    FORMS = [s for (_t, s) in unfold_ref.unfold_ref(SEARCH)]
except unfold_ref.RefError:
    FORMS = []
STAR_FORMS = [f.replace(">", "*") for f in FORMS]
GT_INDEX = FORMS[0].split("/").index(">") if FORMS and ">" in FORMS[0].split("/") else -1


def last_ref(entries, index: int):
    """one entry per distinct prefix (segments before index): the one whose remaining segments are greatest,
    compared segment by segment as strings."""
    best = []     # list of (prefix_segments, tail_segments, entry)
    for e in entries:
        segs = e.split("/")
        pre, tail = segs[:index], segs[index:]
        placed = False
        for i, (p, t, _e) in enumerate(best):
            if p == pre:
                placed = True
                if _greater(tail, t):
                    best[i] = (pre, tail, e)
                break
        if not placed:
            best.append((pre, tail, e))
    return [e for (_p, _t, e) in best]


def _greater(a, b) -> bool:
    for x, y in zip(a, b):
        if x != y:
            return x > y
    return len(a) > len(b)


def _check(got, want) -> bool:
    for g in got:
        if g not in want:
            return fail("not-the-greatest-of-its-group")
    for w in want:
        if w not in got:
            return fail("group-without-answer")
    if len(got) != len(want):
        return fail("more-than-one-per-group")
    return True


TAIL = envstr("VF_TAIL", "1")


def list_last(a: str, c: str, d: str) -> bool:
    """
    FindInList over [PRE+a+MID+TAIL, PRE+c+MID+d (, FIXED)] with SEARCH carrying '>': one entry per group, the segment-wise greatest.
    pre: len(a) <= N and len(c) <= N and len(d) <= N
    pre: '/' not in a and '/' not in c and '/' not in d
    post: _
    """
    L = [PRE + a + MID + TAIL, PRE + c + MID + d]
    if FIXED:
        L.append(FIXED)
    got = list(FindInList(L).find(SEARCH, as_sid=False))
    matching = glob_ref.found(STAR_FORMS, L)
    want = last_ref(matching, GT_INDEX)
    return _check(got, want)


class _Stub(FindByGlob):
    def __init__(self, items):
        self.items = items

    def star_search(self, search_sids, as_sid=False, do_sort=False):
        for i in self.items:
            yield i


def kernel(a: str, as_sid: bool) -> bool:
    """
    FindByGlob.sorted_search with star_search stubbed to yield one arbitrary symbolic entry and three fixed ones
    (tails of one or two segments), '>' at index VF_INDEX of a typed search: one per prefix group, segment-wise greatest.
    pre: len(a) <= N + 2
    pre: a.count('/') <= 1
    pre: '?' not in a and ':' not in a
    post: _
    """
    items = [PRE + a, PRE + "k/k", PRE + "k-/z", PRE + "k/a"]
    search = [Sid(SEARCH)]
    got = [str(x) for x in _Stub(items).sorted_search(search, as_sid=as_sid)]
    uniq = []
    for i in items:
        if i not in uniq:
            uniq.append(i)
    want = last_ref(uniq, INDEX)
    return _check(got, want)


def reach(a: str, c: str, d: str) -> bool:
    """
    Twin: two groups are found.
    pre: len(a) <= N and len(c) <= N and len(d) <= N
    pre: '/' not in a and '/' not in c and '/' not in d
    post: _
    """
    L = [PRE + a + MID + TAIL, PRE + c + MID + d]
    return len(list(FindInList(L).find(SEARCH, as_sid=False))) < 2


# ------------------------------------------------------------------------------------------------
# FindInAll and Sid.get_last over a type-aware stub source (stands for FindInPaths: each typed search only sees
# the entries of its own type), handed out by a stubbed find_all.get_finder.
from spil import FindInAll  # noqa: E402
from spil.sid.read.finders import find_all as _find_all  # noqa: E402


class TypedList(FindByGlob):
    def __init__(self):
        self.items = []
        self.typed = False      # type-aware like FindInPaths: a typed search only sees entries of its own type

    def star_search(self, search_sids, as_sid=False, do_sort=False):
        done = []
        for search in search_sids:
            pats = [str(search)]
            for item in self.items:
                if item in done:
                    continue
                if glob_ref.matches(pats[0], item) and (not self.typed or typing_ref.type_string(item)[0] == search.type):
                    done.append(item)
                    yield Sid(item) if as_sid else item


STUB = TypedList()
SPLIT = envint("VF_SPLIT", 0)
STUB2 = TypedList()


def _get_finder(sid, config=None):
    if SPLIT and Sid(sid).type.endswith("__c"):
        return STUB2
    return STUB


def all_last(a: str, c: str, d: str) -> bool:
    """
    FindInAll (all typed searches served by one source instance): same answer as the single-finder reference,
    one per group over ALL the typed searches the expression unfolds into.
    pre: len(a) <= N and len(c) <= N and len(d) <= N
    pre: '/' not in a and '/' not in c and '/' not in d and '?' not in a + c + d and ':' not in a + c + d
    post: _
    """
    L = [PRE + a + MID + TAIL, PRE + c + MID + d]
    if FIXED:
        L.append(FIXED)
    STUB.items = L
    STUB2.items = L
    old = _find_all.get_finder
    _find_all.get_finder = _get_finder
    try:
        got = list(FindInAll().find(SEARCH, as_sid=False))
    finally:
        _find_all.get_finder = old
    want = last_ref(glob_ref.found(STAR_FORMS, L), GT_INDEX)
    return _check(got, want)


TWICE_U = ["h/a/x/v1", "h/a/x/v2", "h/a/x/v1/m", "h/a/x/v2/b", "h/a/y/v1/m", "h/s/q1/v1/c", "h/s/q1/v2/m", "h/s/q1/v2"]


def list_twice(k: int) -> bool:
    """
    The same '>' search asked k+1 times of one list Finder and then of a new one (spil's caches ON): always the first answer,
    which is the reference answer.
    pre: 1 <= k <= 2
    post: _
    """
    env.clear_caches()
    f = FindInList(list(TWICE_U))
    first = list(f.find(SEARCH, as_sid=False))
    for _ in range(k):
        if list(f.find(SEARCH, as_sid=False)) != first:
            return fail("repeated-last-search-differs")
    if list(FindInList(list(TWICE_U)).find(SEARCH, as_sid=False)) != first:
        return fail("repeated-last-search-differs-on-a-new-finder")
    forms = [s for (_t, s) in unfold_ref.unfold_ref(SEARCH)]
    idx = forms[0].split("/").index(">")
    want = last_ref(glob_ref.found([x.replace(">", "*") for x in forms], TWICE_U), idx)
    if sorted(first) != sorted(want):
        return fail("last-search-differs-from-reference")
    return True


def get_last(a: str, c: str) -> bool:
    """
    Sid(FIXED).get_last(KEY) is the single '>' answer among the existing siblings (or the empty Sid).
    pre: 1 <= len(a) <= N + 1 and 1 <= len(c) <= N + 1
    pre: '/' not in a and '/' not in c and '?' not in a + c and ':' not in a + c
    post: _
    """
    key = envstr("VF_KEY", "version")
    L = [PRE + a + MID + TAIL, PRE + c + MID + TAIL] + [x for x in envstr("VF_EXTRA", "").split(";") if x]
    STUB.items = L
    STUB.typed = True
    old = _find_all.get_finder
    _find_all.get_finder = _get_finder
    try:
        sid = Sid(FIXED)
        got = sid.get_last(key)
        search = sid.get_with(key=key, value=">")
        forms = [s for (_t, s) in unfold_ref.unfold_ref(search.string)] if search else []
    finally:
        _find_all.get_finder = old
        STUB.typed = False
    if not forms:
        return got == Sid() or fail("get_last-on-unsearchable")
    idx = forms[0].split("/").index(">")
    want = last_ref([e for e in glob_ref.found([f.replace(">", "*") for f in forms], L) if typing_ref.type_string(e)[0] == search.type], idx)
    if not want:
        return got == Sid() or fail("get_last-should-be-empty")
    if len(want) != 1:
        return True
    if str(got) != want[0]:
        return fail("get_last-not-the-greatest")
    return True


TAIL2 = envstr("VF_TAIL2", "c")


def all_last_typed(a: str, c: str) -> bool:
    """
    FindInAll over a TYPE-AWARE source (each typed search only sees entries of its own type, like FindInPaths):
    entries PRE+a+MID+TAIL and PRE+c+MID+TAIL2 are of sibling types sharing the search string; one answer per group over
    all the typed searches.
    pre: len(a) <= N and len(c) <= N
    pre: '/' not in a and '/' not in c and '?' not in a + c and ':' not in a + c
    post: _
    """
    L = [PRE + a + MID + TAIL, PRE + c + MID + TAIL2]
    STUB.items = L
    STUB.typed = True
    old = _find_all.get_finder
    _find_all.get_finder = _get_finder
    try:
        got = list(FindInAll().find(SEARCH, as_sid=False))
    finally:
        _find_all.get_finder = old
        STUB.typed = False
    types = [t for (t, _s) in unfold_ref.unfold_ref(SEARCH)]
    typed = [e for e in glob_ref.found(STAR_FORMS, L) if typing_ref.type_string(e)[0] in types]
    want = last_ref(typed, GT_INDEX)
    return _check(got, want)


def get_last_after_change(a: str, c: str) -> bool:
    """
    get_last, then the data gains a greater sibling, then get_last again: the later call reflects the change.
    pre: 1 <= len(a) <= N + 1 and 1 <= len(c) <= N + 1
    pre: '/' not in a and '/' not in c and '?' not in a + c and ':' not in a + c
    post: _
    """
    env.clear_caches()          # this obligation runs with spil's caches ON (VF_CACHES=1)
    key = envstr("VF_KEY", "version")
    e1, e2 = PRE + a + MID + TAIL, PRE + c + MID + TAIL
    sid = Sid(FIXED)
    search = sid.get_with(key=key, value=">")
    ty = search.type
    if typing_ref.type_string(e1)[0] != ty or typing_ref.type_string(e2)[0] != ty:
        return True
    STUB.typed = True
    old = _find_all.get_finder
    _find_all.get_finder = _get_finder
    try:
        STUB.items = [e1]
        first = sid.get_last(key)
        STUB.items = [e1, e2]
        second = sid.get_last(key)
    finally:
        _find_all.get_finder = old
        STUB.typed = False
    if str(first) != e1:
        return fail("get_last-single-entry")
    want = e2 if _greater(e2.split("/"), e1.split("/")) else e1
    if str(second) != want:
        return fail("get_last-stale-after-data-change")
    return True
