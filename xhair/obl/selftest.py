"""
Pinned differential self-test of the engine and its corrections (DESIGN section 2.1): symbolic arguments constrained to
one concrete value each must behave exactly like CPython on that value.  Expected values are computed natively at import.
"""
from __future__ import annotations

import re

from xhair import env
from xhair.obl_util import fail, envint

env.setup()

from spil import Sid  # noqa: E402
from spil.sid.read.tools import unfold_search  # noqa: E402

GROUP = envint("VF_GROUP", 0)
CORPUS = [
    ["h", "h\n", "h/a/x", "h/a/x\n", "*/*", "h/s/q1/v1/o/c"],
    ["a:b:c", "bogus:h", "h/a/x?version=v1", "h/a/x/v1/m", "h/a/\x00", "h//"],
    ["h/a/x'y", "h/a/é", "h/a/٣", ">/>/>", "h/s/q1/v٣", ""],
][GROUP]
RX = re.compile(r"^(?P<p001>(h|\*|\>))/(?P<n001>[^/]*)_(?P<n002>[^/]*)\.(?P<e001>(m|b))$")
RX_STRINGS = ["h/x_x.m", "h/x_y.b\n", "h/a_b_c.m", "*/_.", "h/x_x.mm", "h/x_xXm"]


def _native_sid(s):
    x = Sid(s)
    return (x.type, x.string, tuple(x.fields.items()), bool(x), x.uri)


def _native_rx(s):
    m = RX.search(s)
    return None if m is None else (tuple(sorted(m.groupdict().items())), m.group(0))


EXP_SID = [_native_sid(s) for s in CORPUS]
EXP_RX = [_native_rx(s) for s in RX_STRINGS]
EXP_UNFOLD = [sorted(x.uri for x in unfold_search(s)) if "?" not in s and ":" not in s else None for s in CORPUS]


def pinned_sid(t: str) -> bool:
    """
    Every corpus string, made symbolic by appending a symbolic EMPTY string (a LazyIntSymbolicStr with pinned content).
    pre: len(t) == 0
    post: _
    """
    for i, s in enumerate([c + t for c in CORPUS]):
        x = Sid(s)
        got = (x.type, x.string, tuple(x.fields.items()), bool(x), x.uri)
        if got != EXP_SID[i]:
            return fail("engine-differs-from-cpython-on-Sid")
        if EXP_UNFOLD[i] is not None:
            try:
                u = sorted(y.uri for y in unfold_search(s))
            except Exception:
                u = "exc"
            if u != EXP_UNFOLD[i]:
                return fail("engine-differs-from-cpython-on-unfold_search")
    return True


def pinned_regex(t: str) -> bool:
    """
    E1 (groupdict), E2 ('$' before a final newline), literal '.' as wildcard.
    pre: len(t) == 0
    post: _
    """
    for i, s in enumerate([c + t for c in RX_STRINGS]):
        m = RX.search(s)
        got = None if m is None else (tuple(sorted(m.groupdict().items())), m.group(0))
        if got != EXP_RX[i]:
            return fail("engine-differs-from-cpython-on-regex")
    return True


def pinned_concat(a: str, u: str) -> bool:
    """
    E10: equality of sliced concatenations in both operand orders.
    pre: len(a) <= 1 and len(u) <= 2
    post: _
    """
    full = "t:" + ("h/" + a + "")
    s = full[2:]
    o = "h/" + u
    return (s == o) == (o == s) and ((s == o) == (a == u)) or fail("engine-string-equality-asymmetric")


def _dictkey_lookups():
    x = Sid("a__g:h/a/x/v1/*")
    d = {("h/a/x/v1/*",): "plain", (x,): "sid"}
    return (d[(x,)], d[("h/a/x/v1/*",)], len(d))


EXP_DICTKEY = _dictkey_lookups()      # CPython's answer under the repository as it is (hash + eq of Sid are the repository's)


def pinned_dictkey(i: int) -> bool:
    """
    E9: a real dict keyed by tuples containing a Sid is looked up by hash + eq, exactly as CPython does on this tree.
    pre: 0 <= i < 2
    post: _
    """
    return _dictkey_lookups() == EXP_DICTKEY or fail("engine-dict-lookup-differs-from-cpython")


import posixpath as _pp  # noqa: E402
from xhair import chpatch as _chp  # noqa: E402

NP_STRINGS = ["", "/", "//", "///a", "//a/b", "a/..", "a/../..", "/..", "/r/H/A/../A/x", "/r/H/A/x/.", "/r//H/./A/x/", "../a", "a/b/../../..", "/r/H/A/.."]
EXP_NP = [(_chp._C_NORMPATH or _pp.normpath)(s) for s in NP_STRINGS]      # the C implementation's answers


def pinned_normpath(t: str) -> bool:
    """
    E11: os.path.normpath on symbolic strings (pure-Python reference) equals the C implementation.
    pre: len(t) == 0
    post: _
    """
    import os
    for i, s in enumerate([c + t for c in NP_STRINGS]):
        if os.path.normpath(s) != EXP_NP[i]:
            return fail("engine-normpath-differs-from-cpython")
    return True
