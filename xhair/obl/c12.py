"""C12 -- exists, find_one, children and siblings agree with find."""
from __future__ import annotations

from xhair import env
from xhair.obl_util import fail, envint, envstr

env.setup()
env.const_sid_hash()

from spil import Sid, conf, FindInAll, Finder, SpilException  # noqa: E402
from spil.sid.read.finders.find_glob import FindByGlob  # noqa: E402
from spil.sid.read.finders import find_all as _find_all  # noqa: E402
from oracles import typing_ref, glob_ref  # noqa: E402

typing_ref.templates()
N = envint("VF_N", 2)
PRE = envstr("VF_PRE", "")
SEARCH = envstr("VF_SEARCH", "h/a/*")
SID = envstr("VF_SID", "h/a/x")
EPRE = envstr("VF_EPRE", "h/a/")
ESUF = envstr("VF_ESUF", "")
FIXED = envstr("VF_FIXED", "")


class _Yield(Finder):
    """A Finder whose do_find yields a given list (strings, or Sids when as_sid)."""

    def __init__(self, items):
        self.items = items
        self.calls = 0

    def do_find(self, search_sids, as_sid=True):
        self.calls += 1
        for i in self.items:
            yield Sid(i) if as_sid else i


def finder_laws(a: str, b: str, n: int) -> bool:
    """
    For a Finder whose do_find yields the first n of [PRE+a, PRE+b, 'h/a/x'] (arbitrary non-empty strings):
    exists <=> find yields something; find_one is the first element (or empty); as_sid=False strings == as_sid=True strings.
    pre: 1 <= len(a) <= N and 1 <= len(b) <= N and 0 <= n <= 3
    pre: ':' not in a + b and '?' not in a + b
    post: _
    """
    items = [PRE + a, PRE + b, "h/a/x"][:n]
    f = _Yield(items)
    strs = list(f.find(SEARCH, as_sid=False))
    sids = [str(x) for x in f.find(SEARCH, as_sid=True)]
    if strs != items:
        return fail("find-differs-from-do_find")
    if sids != strs:
        return fail("as_sid-strings-differ")
    if f.exists(SEARCH) != (len(items) > 0):
        return fail("exists-vs-find")
    one = f.find_one(SEARCH, as_sid=False)
    if items:
        if one != items[0]:
            return fail("find_one-not-first")
        if str(f.find_one(SEARCH, as_sid=True)) != items[0]:
            return fail("find_one-as_sid-not-first")
    else:
        if one:
            return fail("find_one-on-empty")
        if f.find_one(SEARCH, as_sid=True):
            return fail("find_one-as_sid-on-empty")
    return True


class TypedList(FindByGlob):
    """type-aware list source (stands for FindInPaths)."""

    def __init__(self):
        self.items = []
        self.calls = 0

    def star_search(self, search_sids, as_sid=False, do_sort=False):
        self.calls += 1
        done = []
        for search in search_sids:
            for item in self.items:
                if item in done:
                    continue
                if glob_ref.matches(str(search), item) and typing_ref.type_string(item)[0] == search.type:
                    done.append(item)
                    yield Sid(item) if as_sid else item


STUB = TypedList()


def _with_stub(fn):
    old = _find_all.get_finder
    _find_all.get_finder = lambda sid, config=None: STUB
    try:
        return fn()
    finally:
        _find_all.get_finder = old


def sid_laws(a: str, b: str) -> bool:
    """
    Universe U = [EPRE+a+ESUF, EPRE+b (, FIXED)] behind FindInAll; for the concrete Sid VF_SID:
    exists() == membership; children() == existing Sids whose parent is the Sid; siblings() == existing Sids sharing
    its parent; a leaf Sid has no children.
    pre: len(a) <= N and len(b) <= N
    pre: ':' not in a + b and '?' not in a + b and '*' not in a + b and '>' not in a + b and '<' not in a + b and ',' not in a + b
    post: _
    """
    U = [EPRE + a + ESUF, EPRE + b]
    if FIXED:
        U.append(FIXED)
    STUB.items = U
    sid = Sid(SID)
    typed_u = []
    for e in U:
        t, f = typing_ref.type_string(e)
        if t and e not in typed_u and not any(s in e for s in conf.search_symbols):
            typed_u.append(e)
    ex = _with_stub(lambda: sid.exists())
    if ex != (SID in typed_u):
        return fail("exists-vs-membership")
    kids = [str(x) for x in _with_stub(lambda: sid.children())]
    want_kids = [e for e in typed_u if "/".join(e.split("/")[:-1]) == SID and len(e.split("/")) == len(SID.split("/")) + 1]
    leaf = sid.keytype == conf.leaf_keys.get(sid.basetype)
    if leaf:
        if kids:
            return fail("leaf-has-children")
    else:
        for k in kids:
            if k not in want_kids:
                return fail("child-that-is-not-a-child")
        for k in want_kids:
            if k not in kids:
                return fail("missing-child")
    sibs = [str(x) for x in _with_stub(lambda: sid.siblings())]
    parent = "/".join(SID.split("/")[:-1])
    want_sibs = [e for e in typed_u if "/".join(e.split("/")[:-1]) == parent and len(e.split("/")) == len(SID.split("/"))]
    for k in sibs:
        if k not in want_sibs:
            return fail("sibling-that-is-not-a-sibling")
    for k in want_sibs:
        if k not in sibs:
            return fail("missing-sibling")
    return True


ORDER_POOL = ["h/*", "h/a/x/v1/*", "h/s,a", "*/*", "h/s/q1/v1/*", "h/a/x/v1/m"]
ORDER_U = ["h/a", "h/s", "h/a/x/v1/m", "h/a/x/v1/g", "h/s/q1/v1/c", "h/s/q1/v1/m", "h/a/x", "h/s/q1"]


def order_repeat(i: int, k: int) -> bool:
    """
    FindInAll asked the same multi-type search again and again (spil's caches ON): find_one == first(find), the
    as_sid=False sequence == the strings of the as_sid=True sequence, exists == bool(find), on every repetition.
    pre: 0 <= i < len(ORDER_POOL) and 1 <= k <= 3
    post: _
    """
    env.clear_caches()
    STUB.items = list(ORDER_U)
    search = ORDER_POOL[i]

    def run():
        f = FindInAll()
        for _ in range(k):
            strs = list(f.find(search, as_sid=False))
            sids = [str(x) for x in f.find(search, as_sid=True)]
            one = f.find_one(search, as_sid=False)
            if strs != sids:
                return "as_sid-sequences-differ"
            if (one or None) != (strs[0] if strs else None):
                return "find_one-not-first-of-find"
            if bool(f.exists(search)) != bool(strs):
                return "exists-vs-find"
        return ""

    bad = _with_stub(run)
    return not bad or fail(bad)


def leaf_no_call(a: str) -> bool:
    """
    children() of a leaf Sid (PRE + a, any typed leaf) is [] and does not consult a Finder.
    pre: len(a) <= N
    pre: ':' not in a and '?' not in a
    post: _
    """
    sid = Sid(PRE + a)
    if not sid or sid.keytype != conf.leaf_keys.get(sid.basetype):
        return True
    STUB.items = [PRE + a + "/x", PRE + a + "/c", PRE + a]
    STUB.calls = 0
    kids = _with_stub(lambda: sid.children())
    if kids:
        return fail("leaf-has-children")
    if STUB.calls:
        return fail("leaf-children-consulted-a-finder")
    return True


def reach(a: str, b: str) -> bool:
    """
    Twin: children found.
    pre: len(a) <= N and len(b) <= N
    pre: ':' not in a + b and '?' not in a + b
    post: _
    """
    STUB.items = [EPRE + a + ESUF, EPRE + b]
    return len(_with_stub(lambda: Sid(SID).children())) == 0


def sid_laws_after_change(a: str) -> bool:
    """
    With spil's caches ON: siblings() / children() / exists(), then an entity EPRE+a+ESUF is created, then again, then it is
    removed, then again: the later answers reflect each change.
    pre: 1 <= len(a) <= N
    pre: ':' not in a and '?' not in a and '*' not in a and '>' not in a and '<' not in a and ',' not in a and '/' not in a
    post: _
    """
    env.clear_caches()
    sid = Sid(SID)
    new = EPRE + a + ESUF
    if typing_ref.type_string(new)[0] == "" or new == FIXED or new.split("/")[-1] in conf.extension_alias:
        return True
    STUB.items = [FIXED] if FIXED else []
    s1 = [str(x) for x in _with_stub(lambda: sid.siblings())]
    k1 = [str(x) for x in _with_stub(lambda: sid.children())]
    e1 = _with_stub(lambda: Sid(new).exists())
    if e1:
        return fail("exists-before-creation")
    STUB.items = ([FIXED] if FIXED else []) + [new]
    s2 = [str(x) for x in _with_stub(lambda: sid.siblings())]
    k2 = [str(x) for x in _with_stub(lambda: sid.children())]
    e2 = _with_stub(lambda: Sid(new).exists())
    if not e2:
        return fail("exists-does-not-reflect-creation")
    parent = "/".join(SID.split("/")[:-1])
    is_sib = "/".join(new.split("/")[:-1]) == parent and len(new.split("/")) == len(SID.split("/"))
    is_kid = "/".join(new.split("/")[:-1]) == SID
    if is_sib and new not in s2:
        return fail("siblings-stale-after-creation")
    if is_kid and new not in k2 and sid.keytype != conf.leaf_keys.get(sid.basetype):
        return fail("children-stale-after-creation")
    # ... and the entity is removed again
    STUB.items = [FIXED] if FIXED else []
    s3 = [str(x) for x in _with_stub(lambda: sid.siblings())]
    k3 = [str(x) for x in _with_stub(lambda: sid.children())]
    if _with_stub(lambda: Sid(new).exists()):
        return fail("exists-does-not-reflect-removal")
    if new in s3 or new in k3:
        return fail("siblings-or-children-stale-after-removal")
    return True


def finder_sidobject(a: str, n: int) -> bool:
    """
    The search handed over as a Sid OBJECT (typed, not a search; VF_SEARCH, e.g. one ending in an extension alias):
    find_one is still the first element of find, exists <=> something found, for a do_find yielding the first n of [PRE+a, 'h/a/x'].
    pre: 1 <= len(a) <= N and 0 <= n <= 2
    pre: ':' not in a and '?' not in a
    post: _
    """
    items = [PRE + a, "h/a/x"][:n]
    f = _Yield(items)
    so = Sid(SEARCH)
    one = f.find_one(so, as_sid=True)
    if items:
        if str(one) != items[0] or one != Sid(items[0]):
            return fail("find_one-sid-object-not-first")
    elif one:
        return fail("find_one-sid-object-on-empty")
    if f.exists(so) != (len(items) > 0):
        return fail("exists-sid-object-vs-find")
    if [str(x) for x in f.find(so, as_sid=True)] != items:
        return fail("find-sid-object-differs-from-do_find")
    return True
