"""Small helpers shared by obligation modules."""
from __future__ import annotations

TAGS: list = []   # filled only during native replay: which oracle clause failed


def fail(tag: str) -> bool:
    """Return False (the obligation's postcondition) and remember why."""
    TAGS.append(tag)
    return False


def envint(name: str, default: int) -> int:
    import os
    return int(os.environ.get(name, default))


def envstr(name: str, default: str) -> str:
    import os
    return os.environ.get(name, default)
