"""
Obligation runner for engine X.

One obligation = one PEP-316 contract function in an obligation module + an environment (bounds are
passed through VF_* variables that the function's `pre:` lines read from module globals).  Every
obligation runs `crosshair check --report_all` in its own OS process under a hard timeout; the verdict is

  confirmed      "Confirmed over all paths"  -> holds for every input satisfying `pre`
  refuted        counterexample printed      -> replayed natively; only a reproduced failure counts
  inconclusive   anything else (Not confirmed, Unable to meet precondition, timeout, crash)

A refuted obligation whose counterexample does not reproduce natively is an engine disagreement
(inconclusive, logged).  Reachability twins are obligations with expect="refute".
"""
from __future__ import annotations

import ast
import concurrent.futures as cf
import importlib
import inspect
import json
import os
import re
import subprocess
import sys
import time
from dataclasses import dataclass, field, asdict
from typing import Any, Dict, List, Optional

VERIF = os.path.dirname(os.path.dirname(os.path.abspath(__file__)))
PY = os.path.join(VERIF, ".venv", "bin", "python")
NATIVE_PY = os.environ.get("VF_NATIVE_PY", "/venv/bin/python")
REPLAY_DIR = os.path.join(VERIF, "evidence", "replay")
LOG_DIR = os.path.join(VERIF, "evidence", "logs")


@dataclass
class Obl:
    name: str                    # unique, e.g. "C01-total[len=3]"
    module: str                  # "xhair.obl.c01"
    func: str
    env: Dict[str, str] = field(default_factory=dict)
    timeout: int = 120           # crosshair per_condition_timeout (CPU seconds of search)
    path_timeout: int = 60
    expect: str = "confirm"      # "confirm" | "refute" (reachability twin) | "find" (bug-hunt only: exhaustion not expected)
    family: str = ""
    bound: str = ""              # human readable bound
    tier: str = "quick"


@dataclass
class Result:
    obl: Obl
    verdict: str = "inconclusive"      # confirmed | refuted | inconclusive
    reason: str = ""
    message: str = ""
    args: Optional[Dict[str, Any]] = None
    replay: Optional[Dict[str, Any]] = None   # native replay outcome
    replay_file: str = ""
    wall_s: float = 0.0
    paths: int = 0
    solver_queries: int = 0
    solver_s: float = 0.0
    log: str = ""


_LINE_RE = re.compile(r"^(?P<file>[^:]+\.py):(?P<line>\d+): (?P<kind>error|info|warning): (?P<msg>.*)$")
_WHICH_RE = re.compile(r" \(which (?:returns|raises) .*\)\s*$", re.S)
_CALL_RE = re.compile(r"when calling (?P<call>\w+\(.*\))\s*$", re.S)


def _func_line(module: str, func: str) -> (str, int):
    path = os.path.join(VERIF, *module.split(".")) + ".py"
    src = open(path).read()
    tree = ast.parse(src)
    for node in ast.walk(tree):
        if isinstance(node, ast.FunctionDef) and node.name == func:
            # a line inside the def: first statement (the docstring)
            return path, node.body[0].lineno
    raise KeyError(f"{func} not in {path}")


def parse_call_args(fn_src: str) -> Optional[Dict[str, Any]]:
    """'f(s = "ab", k=1)' -> {'s': 'ab', 'k': 1} (positional args get names _0, _1)."""
    try:
        node = ast.parse(fn_src, mode="eval").body
        assert isinstance(node, ast.Call)
        out: Dict[str, Any] = {}
        for i, a in enumerate(node.args):
            out[f"_{i}"] = ast.literal_eval(a)
        for kw in node.keywords:
            out[kw.arg] = ast.literal_eval(kw.value)
        return out
    except Exception:
        return None


def run_one(obl: Obl) -> Result:
    res = Result(obl=obl)
    t0 = time.time()
    try:
        path, line = _func_line(obl.module, obl.func)
    except Exception as e:  # harness error
        res.reason = f"harness: {e!r}"
        return res
    env = dict(os.environ)
    env.update(obl.env)
    env["PYTHONPATH"] = VERIF
    env["PYTHONHASHSEED"] = "0"
    env["PYTHONDONTWRITEBYTECODE"] = "1"
    env["VF_STATS"] = "1"
    env.pop("VF_NATIVE", None)
    cmd = [PY, "-m", "crosshair", "check", "--report_all",
           "--per_condition_timeout", str(obl.timeout),
           "--per_path_timeout", str(obl.path_timeout),
           f"{path}:{line}"]
    hard = obl.timeout + 90
    try:
        p = subprocess.run(cmd, env=env, cwd=VERIF, capture_output=True, text=True, timeout=hard)
        out = p.stdout + "\n" + p.stderr
    except subprocess.TimeoutExpired as e:
        out = ((e.stdout or b"").decode("utf8", "replace") if isinstance(e.stdout, bytes) else (e.stdout or ""))
        res.reason = f"hard timeout {hard}s"
        res.wall_s = time.time() - t0
        res.log = out[-4000:]
        return res
    res.wall_s = time.time() - t0
    res.log = out[-6000:]
    m = re.search(r"VFSTATS paths=(\d+) queries=(\d+) solver_s=([0-9.]+)", out)
    if m:
        res.paths, res.solver_queries, res.solver_s = int(m.group(1)), int(m.group(2)), float(m.group(3))
    verdicts = []
    lines = out.splitlines()
    for li, ln in enumerate(lines):
        mm = _LINE_RE.match(ln.strip())
        if mm and os.path.basename(mm.group("file")) == os.path.basename(path):
            msg = mm.group("msg")
            if mm.group("kind") == "error" and "when calling" not in msg:
                # an exception text of several lines: the call is on a later line
                for more in lines[li + 1: li + 80]:
                    msg += " | " + more.strip()
                    if "when calling" in more:
                        break
            verdicts.append((mm.group("kind"), msg))
    if not verdicts:
        res.reason = "no verdict line (crash or import error)"
        return res
    kind, msg = verdicts[0]
    res.message = msg
    if msg.startswith("Confirmed over all paths"):
        res.verdict = "confirmed"
    elif kind == "error":
        cm = _CALL_RE.search(_WHICH_RE.sub("", msg))
        if cm:
            res.args = parse_call_args(cm.group("call"))
        if res.args is None:
            res.reason = "counterexample not parseable"
        else:
            res.verdict = "refuted"
    else:
        res.reason = msg
    return res


REPLAY_TEMPLATE = '''#!{py}
"""Stand-alone replay of a solver counterexample against the real code (plain CPython, caches as shipped).
obligation: {name}
exit 1 = the property is violated for these arguments, 0 = not reproduced."""
import os, sys, json
os.environ["VF_NATIVE"] = "1"
os.environ.setdefault("VF_REPO", "/repo")
{envlines}
sys.path.insert(0, {verif!r})
import importlib, traceback
mod = importlib.import_module({module!r})
args = {args!r}
from xhair import obl_util
obl_util.TAGS.clear()
try:
    r = getattr(mod, {func!r})(**{{k: v for k, v in args.items() if not k.startswith("_")}}) if not any(k.startswith("_") for k in args) else getattr(mod, {func!r})(*args.values())
    out = {{"holds": bool(r), "tags": list(obl_util.TAGS), "exception": None}}
except Exception as e:
    tb = traceback.extract_tb(e.__traceback__)
    site = ""
    for fr in reversed(tb):
        if fr.filename.startswith(os.environ["VF_REPO"]):
            site = os.path.relpath(fr.filename, os.environ["VF_REPO"]) + ":" + fr.name
            break
    out = {{"holds": False, "tags": list(obl_util.TAGS), "exception": type(e).__name__, "site": site, "text": str(e)[:300]}}
    if not site:
        # raised without any frame of the repository on the stack: the harness failed, not the library
        out["harness_error"] = True
        print("REPLAY " + json.dumps(out))
        sys.exit(3)
print("REPLAY " + json.dumps(out))
sys.exit(0 if out["holds"] else 1)
'''


def replay(res: Result, prop: str, idx: int) -> None:
    os.makedirs(REPLAY_DIR, exist_ok=True)
    obl = res.obl
    envlines = "\n".join(f'os.environ[{k!r}] = {v!r}' for k, v in sorted(obl.env.items()))
    fname = os.path.join(REPLAY_DIR, f"{prop}-{idx}.py")
    with open(fname, "w") as f:
        f.write(REPLAY_TEMPLATE.format(py=NATIVE_PY, name=obl.name, envlines=envlines, verif=VERIF,
                                       module=obl.module, args=res.args, func=obl.func))
    os.chmod(fname, 0o755)
    res.replay_file = fname
    res.replay = run_replay(fname)


def run_replay(fname: str) -> Dict[str, Any]:
    env = dict(os.environ)
    env["PYTHONHASHSEED"] = env.get("PYTHONHASHSEED", "0")
    env["PYTHONDONTWRITEBYTECODE"] = "1"
    try:
        p = subprocess.run([NATIVE_PY, fname], env=env, capture_output=True, text=True, timeout=300)
    except subprocess.TimeoutExpired:
        return {"error": "replay timeout"}
    for ln in p.stdout.splitlines():
        if ln.startswith("REPLAY "):
            d = json.loads(ln[7:])
            d["exit"] = p.returncode
            return d
    return {"error": "no REPLAY line", "exit": p.returncode, "tail": (p.stdout + p.stderr)[-800:]}


def run_all(obls: List[Obl], jobs: int = 16, progress=None) -> List[Result]:
    results: List[Result] = []
    with cf.ThreadPoolExecutor(max_workers=jobs) as ex:
        futs = {ex.submit(run_one, o): o for o in obls}
        for fut in cf.as_completed(futs):
            r = fut.result()
            results.append(r)
            if progress:
                progress(r)
    order = {o.name: i for i, o in enumerate(obls)}
    results.sort(key=lambda r: order[r.obl.name])
    return results
