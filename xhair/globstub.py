"""
Environment stub for C11: `glob.glob(pattern)` answered from an explicit universe of path strings.

Model of the operating system (stated in the evidence): a path exists iff it is in UNIVERSE or is a '/'-prefix
of a member (directories of existing files exist); glob.glob(pattern) returns the existing paths whose segments
match the pattern's segments one by one, where '*' matches any run of characters except '/', but a segment
pattern that does not start with '.' never matches a name starting with '.' (glob's hidden-file rule, unless the
caller passes include_hidden=True).
Patterns with '?' or '[' are matched with fnmatch's classes, as Python's glob does (only the known-finding obligation
C11-magic reaches them; the other obligations exclude such names).
"""
from __future__ import annotations

import glob as _real_glob

from typing import List

from oracles import glob_ref

UNIVERSE: List[str] = []
CALLS: List[str] = []


def existing() -> List[str]:
    out: List[str] = []
    for p in UNIVERSE:
        parts = p.split("/")
        for i in range(2, len(parts) + 1):
            q = "/".join(parts[:i])
            if q not in out:
                out.append(q)
    return out


def seg_match(pat: str, name: str, include_hidden: bool = False) -> bool:
    if name.startswith(".") and not pat.startswith(".") and not include_hidden:
        return False
    if "[" in pat or "?" in pat:
        # fnmatch classes, as Python's glob applies them (concrete pattern; used by the known-finding obligation only)
        import fnmatch
        import re
        return re.fullmatch(fnmatch.translate(pat), name) is not None
    return glob_ref.seg_match(pat, name)


def glob(pattern, *, root_dir=None, dir_fd=None, recursive=False, include_hidden=False) -> List[str]:
    """glob.glob's signature; include_hidden switches the hidden-file rule off, as in Python >= 3.11."""
    if root_dir is not None or dir_fd is not None or (recursive and "**" in str(pattern)):
        raise NotImplementedError("glob model: root_dir / dir_fd / recursive '**' are not modelled")
    pattern = str(pattern)
    CALLS.append(pattern)
    ps = pattern.split("/")
    out = []
    for p in existing():
        es = p.split("/")
        if len(es) != len(ps):
            continue
        ok = True
        for x, y in zip(ps, es):
            if not seg_match(x, y, include_hidden):
                ok = False
                break
        if ok:
            out.append(p)
    return out


class _GlobModule:
    """Stands in for the `glob` module inside find_paths: `glob` / `iglob` answer from UNIVERSE, the pure string helpers are the real ones."""
    glob = staticmethod(glob)

    @staticmethod
    def iglob(pattern, **kw):
        return iter(glob(pattern, **kw))

    has_magic = staticmethod(_real_glob.has_magic)
    escape = staticmethod(_real_glob.escape)


def install() -> None:
    from spil.sid.pathops import find_paths
    find_paths.glob = _GlobModule()
