"""
Shared environment of every engine-X obligation (and of every native replay).

setup() does, in this order
  1. put the chosen configuration package (conf/<name>) first on sys.path, /repo next, the shipped
     configuration package last (only so that `hamlet_plugins` -- repository code -- is importable);
  2. symbolic mode only: install the log-call elision import hook (E6) and the CrossHair corrections;
  3. import spil from /repo's *working tree*;
  4. symbolic mode only: bypass spil's memoisation wrappers (E3), unless caches are requested;
     silence logging; optionally give Sids a constant hash; optionally stub pathlib.Path in fs_resolver (E7).

Mode is chosen by environment variables so that the very same obligation function can be executed
symbolically by `crosshair check` and natively by the replay script:
  VF_NATIVE=1     plain CPython: no hook, no corrections, caches as shipped
  VF_CONF=miniA   configuration package (default miniA; "shipped" = spil_hamlet_conf)
  VF_CACHES=1     keep spil's caches on in symbolic mode (C13 / C14-shared)
  VF_ELIDE=0      keep log calls (the "never raises" obligations)
"""
from __future__ import annotations

import ast
import importlib
import importlib.abc
import importlib.machinery
import logging
import os
import sys

VERIF = os.path.dirname(os.path.dirname(os.path.abspath(__file__)))
REPO = os.environ.get("VF_REPO", "/repo")
NATIVE = os.environ.get("VF_NATIVE") == "1"
CONF = os.environ.get("VF_CONF", "miniA")
CACHES = os.environ.get("VF_CACHES") == "1"
ELIDE = os.environ.get("VF_ELIDE", "1") == "1"

_LOG_NAMES = {"debug", "info", "warn", "warning", "error", "critical"}
_done = False


def conf_dir(name: str) -> str:
    if name == "shipped":
        return os.path.join(REPO, "spil_hamlet_conf")
    return os.path.join(VERIF, "conf", name)


# ------------------------------------------------------------------------------------------------
# E6: log-call elision
def _inert(e) -> bool:
    """Argument expressions whose evaluation cannot depend on the input text other than by rendering values:
    constants, names, attributes, f-strings of those, LITERAL.format(...) and len/str/repr/pformat of those."""
    if isinstance(e, (ast.Constant, ast.Name)):
        return True
    if isinstance(e, ast.Attribute):
        return _inert(e.value)
    if isinstance(e, ast.JoinedStr):
        return all(_inert(v) for v in e.values)
    if isinstance(e, ast.FormattedValue):
        return _inert(e.value) and (e.format_spec is None or _inert(e.format_spec))
    if isinstance(e, ast.BinOp) and isinstance(e.op, ast.Add):
        return _inert(e.left) and _inert(e.right)
    if isinstance(e, ast.BoolOp):
        return all(_inert(v) for v in e.values)
    if isinstance(e, ast.Call) and isinstance(e.func, ast.Name) and e.func.id in ("len", "str", "repr", "pformat") and not e.keywords:
        return all(_inert(a) for a in e.args)       # renderings of values
    if isinstance(e, ast.Call) and isinstance(e.func, ast.Attribute) and e.func.attr == "format" and isinstance(e.func.value, ast.Constant) \
            and isinstance(e.func.value.value, str):
        return all(_inert(a) for a in e.args) and all(_inert(k.value) for k in e.keywords)
    return False


class _Elide(ast.NodeTransformer):
    """a statement-level log call is dropped; unless its arguments are inert (see _inert) they are still evaluated,
    so that an exception raised while building the message (e.g. text.format(...) on input text) is not hidden."""

    def visit_Expr(self, node):
        v = node.value
        if isinstance(v, ast.Call):
            f = v.func
            if isinstance(f, ast.Name) and f.id in _LOG_NAMES:
                args = list(v.args) + [k.value for k in v.keywords]
                if all(_inert(a) for a in args):
                    return ast.copy_location(ast.Pass(), node)
                keep = ast.Expr(value=ast.Tuple(elts=[a for a in args if not _inert(a)], ctx=ast.Load()))
                return ast.copy_location(keep, node)
        return node


class _Loader(importlib.machinery.SourceFileLoader):
    def get_code(self, fullname):
        path = self.get_filename(fullname)
        source = self.get_data(path)
        tree = ast.parse(source, path)
        tree = _Elide().visit(tree)
        ast.fix_missing_locations(tree)
        return compile(tree, path, "exec", dont_inherit=True)


class _Finder(importlib.abc.MetaPathFinder):
    def __init__(self, roots):
        self.roots = tuple(os.path.realpath(r) + os.sep for r in roots)

    def find_spec(self, fullname, path, target=None):
        spec = importlib.machinery.PathFinder.find_spec(fullname, path, target)
        if spec is None or not spec.origin or not spec.origin.endswith(".py"):
            return None
        if not os.path.realpath(spec.origin).startswith(self.roots):
            return None
        spec.loader = _Loader(fullname, spec.origin)
        return spec


# ------------------------------------------------------------------------------------------------
def setup(conf: str | None = None) -> None:
    global _done, CONF
    if _done:
        return
    _done = True
    if conf:
        CONF = conf
    sys.dont_write_bytecode = True
    cdir = conf_dir(CONF)
    for p in (os.path.join(REPO, "spil_hamlet_conf"), REPO, cdir, VERIF):
        while p in sys.path:
            sys.path.remove(p)
    sys.path[0:0] = [VERIF, cdir, REPO]
    sys.path.append(os.path.join(REPO, "spil_hamlet_conf"))

    if not NATIVE:
        if ELIDE:
            sys.meta_path.insert(0, _Finder([REPO, cdir]))
        from xhair import chpatch

        chpatch.apply()

    logging.getLogger("resolva").setLevel(logging.CRITICAL)
    _quiet_import()

    if not NATIVE:
        # modules that spil imports lazily inside functions must exist before tracing starts
        import spil.sid.core.sid_factory  # noqa
        import spil.sid.pathops.fs_resolver  # noqa
        import spil.sid.read.finders.find_list  # noqa

        from spil.sid.pathops.pathconfig import get_path_config

        names = list(spil_conf().path_configs)
        if os.environ.get("VF_FIRST"):           # which path configuration is loaded first (C05/C13 variants)
            names.sort(key=lambda n: n != os.environ["VF_FIRST"])
        for name in list(names) + [None]:  # pre-warm configuration level caches (E4)
            try:
                get_path_config(name)
            except Exception:      # a library failure here must surface inside an obligation, not as a harness crash
                pass
        if not CACHES:
            decache()
    from spil.util import log as _log

    _log.setLevel(logging.CRITICAL + 10)


def _quiet_import() -> None:
    """import spil with stdout silenced (resolva logs to stdout at import)."""
    import io
    import contextlib
    import warnings

    with warnings.catch_warnings():
        warnings.simplefilter("ignore")
        with contextlib.redirect_stdout(io.StringIO()):
            importlib.import_module("spil")


def spil_conf():
    from spil import conf

    return conf


KEEP_CACHED = {"get_path_config", "get_finder"}


def decache() -> int:
    """Replace every function wrapped by spil.util.caching (has __wrapped__ and cache_clear) by the bare
    function, in module namespaces and class dicts; likewise resolva's three functools.lru_cache methods."""
    n = 0
    for modname, mod in list(sys.modules.items()):
        if mod is None or not (
            modname == "spil" or modname.startswith("spil.") or modname.startswith("spil_") or modname.startswith("hamlet_")
        ):
            continue
        for k, v in list(vars(mod).items()):
            if callable(v) and hasattr(v, "__wrapped__") and hasattr(v, "cache_clear"):
                if getattr(v, "__name__", "") in KEEP_CACHED:
                    continue
                setattr(mod, k, v.__wrapped__)
                n += 1
            elif isinstance(v, type) and getattr(v, "__module__", "").startswith("spil"):
                for ck, cv in list(vars(v).items()):
                    if callable(cv) and hasattr(cv, "__wrapped__") and hasattr(cv, "cache_clear"):
                        setattr(v, ck, cv.__wrapped__)
                        n += 1
    import urllib.parse as _up

    for name in ("urlsplit", "_byte_quoter_factory"):   # functools.lru_cache in the standard library (E3)
        f = getattr(_up, name, None)
        if f is not None and hasattr(f, "__wrapped__"):
            setattr(_up, name, f.__wrapped__)
            n += 1
    import resolva

    R = resolva.Resolver
    for name in ("resolve_first", "resolve_one", "resolve_all"):
        f = vars(R).get(name)
        if f is not None and hasattr(f, "__wrapped__"):
            setattr(R, name, f.__wrapped__)
            n += 1
    return n


def const_sid_hash() -> None:
    """Any hash consistent with __eq__ is transparent to set/dict semantics; a constant one lets set
    membership fork on the symbolic __eq__ instead of realising the string (E3)."""
    if NATIVE:
        return
    from spil.sid.sid import StringSid

    StringSid.__hash__ = lambda self, *a, **k: 0  # type: ignore


class StrPath:
    """E7: string-preserving stand-in for pathlib.Path inside fs_resolver (symbolic mode only)."""

    def __init__(self, s):
        self._s = s if isinstance(s, str) or type(s).__name__.endswith("Str") else str(s)

    def __str__(self):
        return self._s

    def __fspath__(self):
        return self._s

    def __eq__(self, other):
        return str(other) == self._s

    def __hash__(self):
        return 0

    def __bool__(self):
        return True

    def as_posix(self):
        return self._s

    def __repr__(self):
        return "StrPath(%r)" % (self._s,)


def stub_path() -> None:
    if NATIVE:
        return
    from spil.sid.pathops import fs_resolver
    from spil.sid import sid as sid_module

    fs_resolver.Path = StrPath
    if hasattr(sid_module, "Path"):          # whatever PathSid.path does with the result stays on the string
        sid_module.Path = StrPath


_clearables = None
_nmods = -1
_snapshots = []
_snap_ids = set()


def clear_caches() -> None:
    """Reset every spil / resolva memo (used by obligations that run with caches ON, so that each symbolic
    path starts from a fresh cache state; configuration-level caches are kept)."""
    global _clearables, _nmods
    if _clearables is None or _nmods != len(sys.modules):
        import spil.sid.core.sid_factory  # noqa  (imported lazily by spil)
        import spil.sid.pathops.fs_resolver  # noqa
        import spil.sid.read.finders.find_list  # noqa
        import spil.sid.core.utils  # noqa

        _nmods = len(sys.modules)
        found = []
        for modname, mod in list(sys.modules.items()):
            if mod is None or not (modname == "spil" or modname.startswith("spil.") or modname.startswith("spil_")):
                continue
            for k, v in list(vars(mod).items()):
                if callable(v) and hasattr(v, "cache_clear") and getattr(v, "__name__", "") not in KEEP_CACHED:
                    found.append(v)
                elif isinstance(v, type):
                    for ck, cv in list(vars(v).items()):
                        if callable(cv) and hasattr(cv, "cache_clear"):
                            found.append(cv)
        import resolva

        for name in ("resolve_first", "resolve_one", "resolve_all"):
            f = vars(resolva.Resolver).get(name)
            if f is not None and hasattr(f, "cache_clear"):
                found.append(f)
        _clearables = found
    for f in _clearables:
        f.cache_clear()
    restore_containers()


_nmods2 = -1


def restore_containers() -> None:
    """Module-level and class-level mutable containers of the library (hand-written memos, registries) are put back to the
    content they had when first seen (fresh after setup).  Called at the start of EVERY symbolic path (chpatch hooks
    StateSpace creation) and by clear_caches(): otherwise state written on one path leaks into the next one and
    counterexamples do not replay."""
    global _nmods2
    if _nmods2 != len(sys.modules):
        _nmods2 = len(sys.modules)
        for modname, mod in list(sys.modules.items()):
            if mod is None or not (modname.startswith("spil.") and not modname.startswith("spil.conf")):
                continue
            for k, v in list(vars(mod).items()):
                if k.startswith("__"):
                    continue
                if type(v) in (dict, list, set):
                    if id(v) not in _snap_ids:
                        _snap_ids.add(id(v))
                        _snapshots.append((v, v.copy()))
                elif isinstance(v, type) and getattr(v, "__module__", "") == modname:
                    for ck, cv in list(vars(v).items()):
                        if type(cv) in (dict, list, set) and not ck.startswith("__") and id(cv) not in _snap_ids:
                            _snap_ids.add(id(cv))
                            _snapshots.append((cv, cv.copy()))
    for obj, was in _snapshots:
        if len(obj) != len(was) or obj != was:
            obj.clear()
            obj.extend(was) if type(obj) is list else obj.update(was)
