"""
Engine-side corrections to CrossHair 0.0.110 (see DESIGN.md section 2.1, E1..E7).

Nothing here touches site-packages: every correction is applied to the imported crosshair modules of
the *current process* (the `crosshair check` worker imports the obligation module, which imports
xhair.env, which calls apply()).  Each correction is validated by xhair/selftest.py (pinned
differential tests: a symbolic argument constrained to one concrete value must behave like CPython).
"""
from __future__ import annotations

import re

_applied = False


def apply() -> None:
    global _applied
    if _applied:
        return
    _applied = True
    import os
    off = set(os.environ.get("VF_DISABLE", "").split(","))     # only used to validate the self-test itself
    for name, fn in (("e1", _e1_groupdict), ("e2", _e2_dollar), ("e5", _e5_format), ("e8", _e8_no_shortcircuit),
                     ("e9", _e9_concrete_dict_keys), ("e10", _e10_concat_eq), ("e11", _e11_py_normpath)):
        if name not in off:
            fn()
    install_stats()


# ---------------------------------------------------------------------------------------------
# E1: _Match.groupdict() returned (start, end) spans instead of substrings.
def _e1_groupdict() -> None:
    from crosshair.libimpl import relib

    def groupdict(self, default=None):
        ret = {}
        for name, idx in self.re.groupindex.items():
            if self._groups[idx] is None:
                ret[name] = default
            else:
                ret[name] = self.group(idx)
        return ret

    relib._Match.groupdict = groupdict


# ---------------------------------------------------------------------------------------------
# E2: `$` (AT_END without MULTILINE) is modelled as `\Z`; CPython also matches before a final "\n".
def _e2_dollar() -> None:
    from crosshair.libimpl import relib

    try:
        import re._parser as sre_parse  # py311+
        import re._constants as sre_c
    except ImportError:  # pragma: no cover
        import sre_parse  # type: ignore
        import sre_constants as sre_c  # type: ignore

    orig_parse = relib.parse
    # parsed form of (?=\n?\Z)
    lookahead = list(sre_parse.parse(r"(?=\n?\Z)"))[0]

    def rewrite(items, multiline):
        # items: a SubPattern or list of (op, arg)
        data = items.data if hasattr(items, "data") else items
        for i, node in enumerate(list(data)):
            op, arg = node
            if op is sre_c.AT and arg is sre_c.AT_END and not multiline:
                data[i] = lookahead
            elif op is sre_c.SUBPATTERN:
                rewrite(arg[3], multiline)
            elif op is sre_c.BRANCH:
                for b in arg[1]:
                    rewrite(b, multiline)
            elif op in (sre_c.MAX_REPEAT, sre_c.MIN_REPEAT):
                rewrite(arg[2], multiline)
            elif op in (sre_c.ASSERT, sre_c.ASSERT_NOT):
                rewrite(arg[1], multiline)
        return items

    def parse(pattern, flags=0, *a, **kw):
        tree = orig_parse(pattern, flags, *a, **kw)
        try:
            eff = flags | getattr(getattr(tree, "state", None), "flags", 0)
        except Exception:
            eff = flags
        return rewrite(tree, bool(eff & re.MULTILINE))

    relib.parse = parse


# ---------------------------------------------------------------------------------------------
# E5: format(obj, "") / f"{obj}" deep-realises arbitrary objects; dispatch to Python-level __str__.
def _e5_format() -> None:
    from crosshair import core
    from crosshair.libimpl import builtinslib
    from crosshair.tracers import NoTracing, ResumedTracing

    orig = core._PATCH_REGISTRATIONS.get(format)
    if orig is None:
        return

    def _format(obj, format_spec=""):
        with NoTracing():
            plain = isinstance(format_spec, str) and format_spec == ""
            special = (
                plain
                and not isinstance(obj, (str, int, float, bool, bytes, type(None), list, dict, tuple, set))
                and not isinstance(obj, builtinslib.CrossHairValue)
                and type(obj).__format__ is object.__format__
                and type(obj).__str__ is not object.__str__
                and hasattr(type(obj).__str__, "__code__")
            )
        if special:
            return type(obj).__str__(obj)
        return orig(obj, format_spec)

    core._PATCH_REGISTRATIONS[format] = _format


# ---------------------------------------------------------------------------------------------
# E8: CrossHair "short-circuits" calls to contract-carrying functions (its own _hash/_repr patches among
# them) by forking a parallel path that returns an arbitrary value and reconciles later.  Sound, but it
# multiplies the paths of obligations that hash (dict keys, caches) by 10 and makes them non-exhaustible.
def _e8_no_shortcircuit() -> None:
    from crosshair import core

    core.consider_shortcircuit = lambda *a, **k: None


# ---------------------------------------------------------------------------------------------
# E9: `d[key]` on a real dict with a non-atomic key (a tuple, an object) is answered by a linear `==` scan
# (SimpleDict), i.e. without hashing.  That equals CPython only if __eq__ is consistent with __hash__;
# a Sid equals its plain string but hashes differently, so the cache key (Sid('t:x'),) wrongly hits the entry
# of ('x',).  Deeply concrete keys are therefore looked up natively (their __hash__ runs as in CPython).
def _e9_concrete_dict_keys() -> None:
    from crosshair import opcode_intercept as oi

    atoms = (str, int, float, bool, bytes, type(None))

    def deeply_concrete(k, depth=0) -> bool:
        t = type(k)
        if t in atoms:
            return True
        if t in (tuple, frozenset) and depth < 4:
            return all(deeply_concrete(x, depth + 1) for x in k)
        if getattr(t, "__module__", "").startswith("spil.") and hasattr(k, "_string"):
            return type(getattr(k, "_string", None)) is str and type(getattr(k, "_type", "")) is str
        return False

    orig = oi.SymbolicSubscriptInterceptor.trace_op

    def trace_op(self, frame, codeobj, codenum):
        try:
            key = oi.frame_stack_read(frame, -1)
            if type(key) is tuple and type(oi.frame_stack_read(frame, -2)) is dict and deeply_concrete(key):
                return
        except Exception:
            pass
        return orig(self, frame, codeobj, codenum)

    oi.SymbolicSubscriptInterceptor.trace_op = trace_op


# ---------------------------------------------------------------------------------------------
# E10: SequenceConcatenation.__eq__ compares its halves with slices of the other sequence using plain `==`;
# when one side is a concrete list of code points and the other a concrete tuple (e.g. an empty slice) Python
# answers False ([] != ()), so `("t:" + (p + a + ""))[2:] == p + u` was False while the reflected comparison
# was True.  Compare plain list/tuple halves element-wise instead.
def _e10_concat_eq() -> None:
    from crosshair import simplestructs as ss
    from crosshair.tracers import NoTracing

    from crosshair.libimpl.builtinslib import SymbolicList

    def norm(x):
        # a SymbolicList models a Python *list* (never equal to a tuple); inside a string's code point
        # sequence it is just a sequence: compare its (immutable) contents
        while isinstance(x, SymbolicList):
            x = x.inner
        return x

    def seq_eq(a, b):
        with NoTracing():
            a, b = norm(a), norm(b)
            a_plain = type(a) in (list, tuple)
            b_plain = type(b) in (list, tuple)
        if a_plain and b_plain:
            if len(a) != len(b):
                return False
            for x, y in zip(a, b):
                if x is y:
                    continue
                if x != y:
                    return False
            return True
        if a_plain:
            return b == a
        return a == b

    def __eq__(self, other):
        with NoTracing():
            if not hasattr(other, "__len__"):
                return False
            first, second = self._first, self._second
        if self.__len__() != other.__len__():
            return False
        firstlen = first.__len__()
        return seq_eq(first, other[:firstlen]) and seq_eq(second, other[firstlen:])

    ss.SequenceConcatenation.__eq__ = __eq__


# ---------------------------------------------------------------------------------------------
# statistics for the evidence files: paths explored, solver queries, solver seconds
STATS = {"paths": 0, "queries": 0, "solver_s": 0.0}


# ---------------------------------------------------------------------------------------------
# E11: os.path.normpath is a C function since 3.11 (posix._path_normpath): a symbolic string is realised at the
# call, and everything after it is concrete sampling.  In symbolic mode it is replaced by CPython's own pure-Python
# reference implementation (the ImportError fallback in Lib/posixpath.py, str case), so the string stays symbolic.
# Differentially validated against the C function in the self-test.
def py_normpath(path):
    import os
    path = os.fspath(path)
    if isinstance(path, bytes):
        return _C_NORMPATH(path)
    if path == "":
        return "."
    if path[:2] == "//" and path[2:3] != "/":
        initial_slashes, path = "//", path[2:]
    elif path[:1] == "/":
        initial_slashes, path = "/", path.lstrip("/")
    else:
        initial_slashes = ""
    comps = path.split("/")
    new_comps = []
    for comp in comps:
        if comp == "" or comp == ".":
            continue
        if comp != ".." or (not initial_slashes and not new_comps) or (new_comps and new_comps[-1] == ".."):
            new_comps.append(comp)
        elif new_comps:
            new_comps.pop()
    path = initial_slashes + "/".join(new_comps)
    return path or "."


_C_NORMPATH = None


def _e11_py_normpath() -> None:
    global _C_NORMPATH
    import posixpath
    if _C_NORMPATH is None:
        _C_NORMPATH = posixpath.normpath
    posixpath.normpath = py_normpath


def install_stats() -> None:
    import atexit
    import os
    import sys
    import time

    import z3
    from crosshair import statespace

    if getattr(z3.Solver, "_vf_wrapped", False):
        return
    orig_check = z3.Solver.check

    def check(self, *a, **k):
        t0 = time.perf_counter()
        try:
            return orig_check(self, *a, **k)
        finally:
            STATS["queries"] += 1
            STATS["solver_s"] += time.perf_counter() - t0

    z3.Solver.check = check
    z3.Solver._vf_wrapped = True

    orig_init = statespace.StateSpace.__init__

    def __init__(self, *a, **k):
        STATS["paths"] += 1
        try:
            from xhair import env as _env
            _env.restore_containers()      # every path starts from the library's post-setup container state
        except Exception:
            pass
        return orig_init(self, *a, **k)

    statespace.StateSpace.__init__ = __init__

    def report():
        sys.stderr.write("\nVFSTATS paths=%d queries=%d solver_s=%.3f\n" % (STATS["paths"], STATS["queries"], STATS["solver_s"]))
        sys.stderr.flush()

    if os.environ.get("VF_STATS") == "1":
        atexit.register(report)
