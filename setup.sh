#!/bin/bash
# Idempotent offline bootstrap of the overlay venv (crosshair-tool + z3-solver from the wheelhouse on top of /venv).
set -e
cd "$(dirname "$0")"
V=.venv
cvc5_once() {  # second solver for engine Z's cross-check; optional: without it the cross-check reports "undecided"
  if [ ! -e $V/.cvc5_tried ]; then
    PIP_NO_INDEX=1 $V/bin/pip install -q --no-index --find-links /opt/veriftools/wheels cvc5 >/dev/null 2>&1 || true
    touch $V/.cvc5_tried
  fi
}
if [ -x $V/bin/python ] && $V/bin/python -c "import crosshair, z3, resolva" 2>/dev/null; then cvc5_once; exit 0; fi
rm -rf $V
/venv/bin/python -m venv $V
SP=$($V/bin/python -c "import sysconfig; print(sysconfig.get_paths()['purelib'])")
echo "import site; site.addsitedir('/venv/lib/python3.12/site-packages')" > "$SP/_venv_overlay.pth"
PIP_NO_INDEX=1 $V/bin/pip install -q --no-index --find-links /opt/veriftools/wheels crosshair-tool z3-solver
$V/bin/python -c "import crosshair, z3, resolva"
cvc5_once
