from xhair.runner import Obl

M = "xhair.obl.c07"

# (prefix, max token length, suffix): the search string is prefix + t + suffix, every t (no whitespace, ':' or URL metacharacters)
SK_QUICK = [
    ("", 2, ""), ("h/", 2, ""), ("h/", 1, "/**"), ("h/a/**/", 1, ""), ("h/s/q1/**/", 1, ""), ("h/a,", 1, ""),
    ("h/s/q1/v1/", 1, ""), ("h/*/**/", 1, ""), ("h/a/**?version=", 1, ""), ("h/*/x?t=", 2, ""), ("h/s/**?ext=", 1, ""),
    ("h/*/*?zz=", 1, ""), ("h/*/*?n=", 1, ""), ("h/a/x/", 1, "/**"), ("h/**/", 1, ""), ("h/s/q1/v1/", 1, "/**"), ("h/a/x?", 2, ""),
    ("h/a/x/v1?ext=", 1, ""), ("h/s/q1/v1?o=g&ext=", 1, ""), ("h/x,", 1, "/*"), ("h/x,y,", 1, ""), ("h/s/**/o/", 1, ""), ("h/a/x/v1/g, ", 1, ""), ("h/a,*/x/v1/", 1, ""), ("h/a/x/*/y?version=v1?n=", 1, ""),      # a path without search symbol + a deeper filter (its value may be one)
]
SK_THOROUGH = SK_QUICK + [
    ("", 3, ""), ("h/", 3, ""), ("h/", 2, "/**"), ("h/a/**/", 2, ""), ("h/s/q1/**/", 2, ""), ("h/a,", 2, ""), ("h/s/q1/v1/", 2, ""),
    ("h/*/**/", 2, ""), ("h/a/**?version=", 2, ""), ("h/s/**?ext=", 2, ""), ("h/a/x/", 2, "/**"), ("h/**/", 2, ""), ("h/s/q1/v1/", 2, "/**"),
    ("h/a/x?", 3, ""), ("h/s/", 2, "/**/c"), ("h/s/q1/v1/**/", 2, ""), ("h/s/**/", 1, "/c"), ("*/", 1, "/**/y"), ("h/a/**/y?version=", 1, ""),
    ("h/s/**?o=", 1, ""), ("h/a/**?", 1, "=v1"), ("h/s,a/**/", 1, ""), ("h/**?t=", 1, ""), ("h/s/q1/**?version=>&ext=", 1, ""),
]


def _name(fam, pre, n, suf):
    return f"{fam}[{pre!r}+{n}{'+' + repr(suf) if suf else ''}]"


def x_obligations(tier):
    o = []
    T = 170 if tier == "quick" else 600
    sk = SK_QUICK if tier == "quick" else SK_THOROUGH
    for pre, n, suf in sk:
        env = {"VF_PRE": pre, "VF_N": str(n), "VF_SUF": suf}
        o.append(Obl(_name("C07-ref", pre, n, suf), M, "ref", env=env, timeout=T, path_timeout=200, family="C07-ref",
                     bound=f"search = {pre!r} + t + {suf!r}, every token t with len(t) <= {n} (no whitespace, ':' or URL metacharacters)"))
    for pre, n, suf in ([("", 2, ""), ("h/", 1, "?a=b"), ("h/a/**/", 1, ""), ("?", 1, ""), ("bla?", 1, "=x")] if tier == "quick" else [("", 3, ""), ("h/", 2, "?a=b"), ("h/a/**/", 2, ""), ("?", 2, ""), ("h/**/", 2, "/**"), ("h/a/x?", 2, ""), ("bla?", 2, "=x"), ("h/*/*?", 1, "=s")]):
        env = {"VF_PRE": pre, "VF_N": str(n), "VF_SUF": suf}
        o.append(Obl(_name("C07-exc", pre, n, suf), M, "exc", env=env, timeout=T, path_timeout=200, family="C07-exc",
                     bound=f"search = {pre!r} + t + {suf!r}, EVERY str t with len(t) <= {n}; log calls dropped, their non-inert arguments still evaluated (E6)"))
    o.append(Obl("C07-exc[''+1,log calls kept]", M, "exc", env={"VF_PRE": "", "VF_N": "1", "VF_SUF": "", "VF_ELIDE": "0"}, timeout=T, path_timeout=200, family="C07-exc",
                 bound="search = t, every str t with len(t) <= 1; log calls NOT elided (formatting of every message executed)"))
    ship = [("hamlet/", 1, "/**"), ("hamlet/s/sq010/sh0010/anim/v001/w/ma", 1, "")]
    if tier == "thorough":
        ship += [("hamlet/s/**/movie?version=", 1, ""), ("hamlet/a/char/", 1, "/**/maya"), ("hamlet/s,", 1, "/*"), ("hamlet/*/**?ext=", 1, ""), ("hamlet/a/char/x/model/v001/", 1, "/cache")]
    for pre, n, suf in ship:
        o.append(Obl(_name("C07-ref[shipped]", pre, n, suf), M, "ref", env={"VF_CONF": "shipped", "VF_PRE": pre, "VF_N": str(n), "VF_SUF": suf}, timeout=T, path_timeout=300, family="C07-shipped",
                     bound=f"shipped configuration: search = {pre!r} + c + {suf!r}, c one symbolic character"))
    o.append(Obl("C07-kernel-or_on_path", M, "kernel_or_path", env={"VF_N": "1" if tier == "quick" else "2"}, timeout=T, family="C07-kernel", bound="3 segments of symbolic text"))
    o.append(Obl("C07-kernel-handle_extension", M, "kernel_ext", env={"VF_N": "4" if tier == "quick" else "5"}, timeout=T, family="C07-kernel"))
    o.append(Obl("C07-history[caches on]", M, "history", env={"VF_CACHES": "1"}, timeout=T, family="C07-history",
                 bound="ordered pairs of 12 related searches (or-lists, their branches, aliases, their members) with spil's caches ON: the second answer equals the reference"))
    o.append(Obl("C07-reach", M, "reach", env={"VF_N": "1", "VF_PRE": "h/", "VF_SUF": "/**"}, timeout=150, expect="refute", family="C07-twin"))
    return o


META = {
    "functions": ["spil.sid.read.tools.unfold_search/apply_unfolders", "spil.sid.read.unfolders.extensions/or_op/expand/typed_narrow", "spil.sid.core.utils.expand/simple_typing",
                  "spil.sid.core.sid_resolver.sid_to_dicts", "spil.sid.core.query_helper.*", "spil.sid.core.sid_factory.sid_to_sid"],
    "assumptions": ["tokens: no whitespace (or_op strips alternatives; outside the statement), no ':' and no URL metacharacters; '~' excluded in the reference comparison",
                    "search strings are skeleton + symbolic token(s); the skeleton list is enumerated, the tokens are decided by the solver",
                    "Sid.__hash__ replaced by a constant in symbolic mode (transparent to set semantics; C14 checks the real hash)"],
}
