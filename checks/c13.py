from xhair.runner import Obl

M = "xhair.obl.c13"


def x_obligations(tier):
    o = []
    T = 170 if tier == "quick" else 600
    triples = [(0, 1, 4), (4, 4, 0), (1, 2, 3), (5, 6, 5), (6, 5, 1)] if tier == "quick" else [(a, b, c) for a in range(7) for b in range(7) for c in range(7) if (a + 2 * b + 3 * c) % 7 == 0]
    for w in ("lru_kw_cache", "lru_cache", "hit_cache"):
        for ms in (1, 2):
            for (m1, m2, m3) in triples:
                if tier == "quick" and (ms + m1 + len(w)) % 2:
                    continue
                o.append(Obl(f"C13-wrap[{w},cap={ms},styles={m1}{m2}{m3}]", M, "wrap", env={"VF_WRAPPER": w, "VF_MAXSIZE": str(ms), "VF_M1": str(m1), "VF_M2": str(m2), "VF_M3": str(m3)},
                             timeout=T, family="C13-wrap", bound="3-call histories, arguments a<2,b<3,c<2 (third call a<2,b<2), capacity %d" % ms))
    o.append(Obl("C13-hit-falsy", M, "hit_falsy", timeout=T, family="C13-wrap", bound="2-call histories, a<3, b<3"))
    for i in (range(7) if tier == "thorough" else (0, 2, 6)):
        o.append(Obl(f"C13-entry-path[sid#{i}]", M, "entry_path", env={"VF_IDX": str(i)}, timeout=T, family="C13-entry", bound="sid.path(c1); sid.path(c2), c in {local, server, None}, positional or keyword"))
    o.append(Obl("C13-entry-from-path", M, "entry_from_path", timeout=T, family="C13-entry", bound="6 paths x 3 x 3 configurations"))
    o.append(Obl("C13-entry-path_to_dict", M, "entry_path_to_dict", timeout=T, family="C13-entry", bound="6 paths x 3 x 3 configurations x 2 x 2 passing styles"))
    for i in (range(6) if tier == "thorough" else (1, 2, 5)):
        for (k1, k2) in ([(0, 1)] if tier == "quick" else [(0, 0), (0, 1), (1, 0), (1, 1)]):
            o.append(Obl(f"C13-entry-unfold[search#{i},kw={k1}{k2}]", M, "entry_unfold", env={"VF_IDX": str(i), "VF_KW1": str(k1), "VF_KW2": str(k2)}, timeout=T, family="C13-entry",
                         bound="unfold_search(s, do_uniquify, do_extrapolate) twice, all 16 flag combinations"))
    o.append(Obl("C13-entry-shared", M, "entry_sid_shared", timeout=T, family="C13-entry", bound="7 x 7 Sid strings, mutation of returned dictionaries between calls"))
    NCALLS = 35
    for i in range(NCALLS):
        for first in (("local", "server") if tier == "thorough" or i in (9, 11, 13, 16) else ("local",)):
            o.append(Obl(f"C13-pair[first={i},loaded-first={first}]", M, "pair", env={"VF_IDX": str(i), "VF_FIRST": first}, timeout=T, family="C13-pair",
                         bound=f"history (call #{i}, call j) for every j of a 35-call alphabet covering all cached entry points, flags and configurations; path configuration '{first}' loaded first"))
    if tier == "thorough":
        for i in range(NCALLS):
            o.append(Obl(f"C13-triple[first={i}]", M, "triple", env={"VF_IDX": str(i)}, timeout=T, family="C13-pair", bound="histories of 3 calls over the 35-call alphabet"))
    for sid, epre, esuf, fixed in [("h/a/x", "h/a/", "", "h/a/x"), ("h/s/q1/v1/c", "h/s/q1/v1/", "", "h/s/q1/v1/c")]:
        o.append(Obl(f"C13-data-change[{sid},{epre!r}+a]", "xhair.obl.c12", "sid_laws_after_change", env={"VF_SID": sid, "VF_EPRE": epre, "VF_ESUF": esuf, "VF_FIXED": fixed, "VF_N": "1", "VF_CACHES": "1"},
                     timeout=60 if tier == "quick" else T, expect="find", family="C13-entry", bound="exists / siblings / children before an entity is created, after, and after it is removed again -- caches ON (keys are realised: bug-hunt)"))
    o.append(Obl("C13-finder-reuse[caches on]", "xhair.obl.c12", "order_repeat", env={"VF_CACHES": "1"}, timeout=T, family="C13-entry",
                 bound="one FindInAll instance asked 6 searches 1..3 times (find, find as Sid, find_one, exists -- partially consumed generators in between): every answer as the first time"))
    o.append(Obl("C13-reach", M, "reach", timeout=60, expect="refute", family="C13-twin"))
    return o


def z_obligations(tier):
    # which path configuration is loaded first must not matter for the shipped configuration modules either
    return [dict(name=f"C13-roots[shipped,loaded-first={first}]", module="tplz3.c05z", func="roots", args={"conf": "shipped", "first": first}, timeout=300, family="C13-roots") for first in ("local", "server")]


META = {
    "functions": ["spil.util.caching.lru_cache/lru_kw_cache/hit_cache", "spil.sid.sid.PathSid.path", "spil.sid.core.sid_factory.path_to_sid/sid_to_sid", "spil.sid.pathops.fs_resolver.path_to_dict",
                  "spil.sid.read.tools.unfold_search", "resolva.Resolver.resolve_* (functools.lru_cache, shared dictionaries)"],
    "assumptions": ["cache keys are hashed, which CrossHair realises: arguments range over finite domains chosen by symbolic indices, the solver enumerates the histories",
                    "expected value of an entry-point call = evaluation of the unwrapped (__wrapped__) function"],
    "outside": ["a fresh interpreter process, the 8 hash seeds, histories longer than 3 calls, default capacity 4096"],
}
