from xhair.runner import Obl
from checks.common import per_part

M = "xhair.obl.c02"
QBUILT = [("h?n=", 1, "&t=a"), ("h/s?version=v", 1, "&q=q1")]
FORCED = [("a__n:h/a/", 2, ""), ("s__version:h/s/q1/v", 2, ""), ("a__g:h/a/x/v1/", 2, "")]      # uri forms: a forced type, free text after it
QBUILT_T = [("h?n=x&t=", 1, ""), ("h?version=v1&q=q1&t=", 1, ""), ("h/a?ext=m&o=g&version=v1&n=", 1, "")]


def x_obligations(tier):
    o = []
    o += per_part("C02", "C02-canonical", M, "canonical", tier)
    # typed Sids obtained by a query that adds deeper keys in another order than the template's
    for pre, n, suf in QBUILT if tier == "quick" else QBUILT + QBUILT_T:
        o.append(Obl(f"C02-canonical[query-built,{pre!r}+{n}+{suf!r}]", M, "canonical", env={"VF_PRE": pre, "VF_N": str(n), "VF_SUF": suf}, timeout=170 if tier == "quick" else 600,
                     family="C02-canonical", bound=f"Sid({pre!r} + t + {suf!r}), every t with len(t) <= {n} without '?' and ':'"))
    for pre, n, suf in FORCED:
        o.append(Obl(f"C02-canonical[forced,{pre!r}+{n}]", M, "canonical", env={"VF_PRE": pre, "VF_N": str(n if tier == "quick" else n + 1), "VF_SUF": suf}, timeout=170 if tier == "quick" else 600,
                     family="C02-canonical", bound=f"Sid({pre!r} + t), every t (all code points but '?' and ':')"))
    o += per_part("C02", "C02-uri", M, "via_uri", tier)
    o += per_part("C02", "C02-fields-rev", M, "via_fields", tier, extra_env={"VF_ROT": "0"})
    o += per_part("C02", "C02-fields-rot", M, "via_fields", tier, extra_env={"VF_ROT": "2"}, only=None if tier == "thorough" else ["h/a/x/", "h/s/q1/v1/"])
    o += per_part("C02", "C02-query", M, "query", tier, shrink=0)
    n = 3 if tier == "quick" else 4
    o.append(Obl(f"C02-eq[len<={n}]x2", M, "eq", env={"VF_N": str(n)}, timeout=170 if tier == "quick" else 600, family="C02-eq", bound=f"every pair of str a, b with len <= {n}"))
    for pre in ["h/a/", "h/s/q1/v1/"]:
        o.append(Obl(f"C02-evalrepr[{pre!r}]", M, "eval_repr", env={"VF_PRE": pre}, timeout=170 if tier == "quick" else 600, family="C02-evalrepr",
                     bound="free value = 1..2 letters of a 12-letter quote/escape/control alphabet (solver-enumerated)"))
    # typing / rebuilding a plain string answers the same after a Sid OBJECT of the same string (forced, non-first type)
    # went through Sid(): spil's caches on, histories from C13's call alphabet (calls 1-3 first, every call second)
    for i in (1, 2, 3, 29):
        o.append(Obl(f"C02-history[after call#{i}]", "xhair.obl.c13", "pair", env={"VF_IDX": str(i), "VF_FIRST": "local"}, timeout=170 if tier == "quick" else 600, family="C02-history",
                     bound=f"history (call #{i}: a uri / Sid object with a forced type, call j) for every j of the call alphabet of C13, caches on"))
    o.append(Obl("C02-reach", M, "reach_forms", env={"VF_N": "6"}, timeout=150, expect="refute", family="C02-twin"))
    return o


META = {
    "functions": ["spil.sid.sid.StringSid.__eq__/__repr__/copy", "spil.sid.sid.TypedSid.uri/fields/as_query", "spil.sid.core.sid_factory.sid_to_sid/dict_to_sid/sid_factory",
                  "spil.sid.core.sid_resolver.dict_to_type/dict_to_sid/sid_to_dict", "spil.sid.core.query_helper.to_string/to_dict/update/apply_query", "urllib.parse.urlencode/parse_qsl/urlsplit (pure Python, executed symbolically)"],
    "assumptions": ["query round trip: values non-empty, no whitespace, none of & = + % # ; ? and no leading '~' (the query syntax's own option prefix)"],
}
