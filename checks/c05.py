from xhair.runner import Obl

M = "xhair.obl.c05"

RT_QUICK = [("", 4, ""), ("h/a/", 2, ""), ("h/a/", 1, "/v1/m"), ("h/a/x/", 2, ""), ("h/a/x/v1/", 1, ""), ("h/s/q1/v1/", 1, ""), ("h/s/q1/v1/", 1, "/c"), ("h/s/q1/v1/o/", 1, ""), ("h/a/x_", 1, "/v1/g")]
RT_THOROUGH = RT_QUICK + [("", 6, ""), ("h/a/", 4, ""), ("h/a/", 2, "/v1/m"), ("h/a/x/", 4, ""), ("h/a/x/v1/", 2, ""), ("h/s/q1/v1/", 3, ""), ("h/s/q1/v1/", 2, "/c"), ("h/s/q1/v1/o/", 2, ""),
                          ("h/a/_", 1, "_/v1/b"), ("h/s/", 2, "/v1/m"), ("h/s/q1/", 2, "/o/c"), ("h/a/x.", 1, "/v1/k"), ("h/s/q1/v1/a_", 1, "/j")]
INJ_QUICK = [(("h/a/", 1, "/v1/m"), ("h/a/", 1, "/v1/m")), (("h/s/q1/v1/", 1, "/c"), ("h/s/q1/v1/", 1, "")), (("h/a/x/v1/", 1, ""), ("h/a/x/v1/", 1, "")), (("h/a/", 1, ""), ("h/a/", 1, ""))]
INJ_THOROUGH = INJ_QUICK + [(("h/a/", 2, "/v1/m"), ("h/a/", 2, "/v1/m")), (("h/s/q1/v1/", 2, "/c"), ("h/s/q1/v1/", 2, "")), (("h/s/q1/v1/", 1, "/c"), ("h/s/q1/v1/", 1, "/j")), (("h/a/x/", 2, "/m"), ("h/a/x/", 2, "/g")),
                            (("h/s/q1/v1/", 1, "/c"), ("h/s/q1/", 2, "/c"))]


def x_obligations(tier):
    o = []
    T = 170 if tier == "quick" else 600
    for cfg in ("local", "server"):
        for i, (pre, n, suf) in enumerate(RT_QUICK if tier == "quick" else RT_THOROUGH):
            if tier == "quick" and cfg == "server" and i % 2 == 0:
                continue
            for first in (("local", "server") if tier == "thorough" or i in (1, 4) else ("local",)):
                o.append(Obl(f"C05-rt[{cfg},{pre!r}+{n}{'+' + repr(suf) if suf else ''},loaded-first={first}]", M, "roundtrip",
                             env={"VF_PRE": pre, "VF_N": str(n), "VF_SUF": suf, "VF_CONFIG": cfg, "VF_FIRST": first}, timeout=T, path_timeout=200, family="C05-rt",
                             bound=f"Sid({pre!r}+t+{suf!r}), every t with len<={n}; configuration {cfg}; '{first}' loaded first"))
    for (a, b) in (INJ_QUICK if tier == "quick" else INJ_THOROUGH):
        o.append(Obl(f"C05-inj[{a[0]!r}+{a[1]}+{a[2]!r} | {b[0]!r}+{b[1]}+{b[2]!r}]", M, "injective",
                     env={"VF_PRE": a[0], "VF_N": str(a[1]), "VF_SUF": a[2], "VF_PRE2": b[0], "VF_SUF2": b[2]}, timeout=T, path_timeout=200, family="C05-inj",
                     bound="two symbolic Sids of the same / sibling file types"))
    # Sids built from fields: free values with any character (also '?' and ':' which a Sid string cannot carry)
    for base, key, n, cfg in ([("h/a/x/v1/m", "n", 2, "local"), ("h/s/q1/v1/o/c", "o", 1, "server"), ("h/a/x", "n", 2, "server")] if tier == "quick" else
                              [(b, k, n, c) for (b, k, n) in [("h/a/x/v1/m", "n", 3), ("h/s/q1/v1/o/c", "o", 2), ("h/a/x", "n", 3), ("h/s/q1/v1/o", "o", 3), ("h/a/x/v1/g", "n", 2)] for c in ("local", "server")]):
        o.append(Obl(f"C05-rt-fields[{cfg},{base},{key},len<={n}]", M, "roundtrip_fields", env={"VF_BASE": base, "VF_KEY": key, "VF_N": str(n), "VF_CONFIG": cfg}, timeout=T, path_timeout=200, family="C05-rt",
                     bound=f"Sid(fields = fields of {base} with {key} = t), every str t with len<={n} (all code points); configuration {cfg}"))
    ship = [("hamlet/a/char/", 1, "/model/v001/w/ma"), ("hamlet/a/char/x_", 1, "/rig/v002/p/mov"), ("hamlet/s/sq01", 1, "/sh0010/anim/v001/w/ma"),
            ("hamlet/s/sq010/sh0010/fx/v001/p/smoke/vd", 1, "")]      # the node-file path template names {node} before {state}
    for pre, n, suf in ship:
        for cfg in ("local", "server"):
            o.append(Obl(f"C05-rt[shipped,{cfg},{pre!r}+{n}+{suf!r}]", M, "roundtrip", env={"VF_CONF": "shipped", "VF_PRE": pre, "VF_N": str(n), "VF_SUF": suf, "VF_CONFIG": cfg}, timeout=T, path_timeout=300, family="C05-shipped",
                         bound=f"shipped configuration {cfg}: Sid({pre!r}+c+{suf!r}), c one symbolic character"))
    # path() of two Sids sharing their string but not their type, one after the other (C13's call alphabet, caches on)
    for i in (32, 33):
        o.append(Obl(f"C05-history[after call#{i}]", "xhair.obl.c13", "pair", env={"VF_IDX": str(i), "VF_FIRST": "local"}, timeout=T, family="C05-history",
                     bound=f"history (call #{i}: path() of a same-string Sid of another type, call j) for every j of the call alphabet of C13, caches on"))
    for base, key in [("hamlet/s/sq010/sh0010/fx/v001/p/smoke/vdb", "node"), ("hamlet/a/char/ophelia/model/v001/w/ma", "asset")]:
        for cfg in ("local", "server"):
            o.append(Obl(f"C05-rt-pool[shipped,{cfg},{key}]", M, "roundtrip_pool", env={"VF_CONF": "shipped", "VF_BASE": base, "VF_KEY": key, "VF_CONFIG": cfg}, timeout=T, family="C05-shipped",
                         bound=f"shipped configuration {cfg}: fields of {base} with {key} from a 10-value pool (solver-chosen index)"))
    o.append(Obl("C05-reach", M, "reach", env={"VF_N": "1", "VF_PRE": "h/a/", "VF_SUF": "/v1/m"}, timeout=150, expect="refute", family="C05-twin"))
    return o


def z_obligations(tier):
    z = [dict(name=f"C05-{f}[shipped]", module="tplz3.c05z", func=f, args={"conf": "shipped"}, timeout=600, family=f"C05-{f}") for f in ("mapping", "unambiguous")]
    for first in ("local", "server"):
        z.append(dict(name=f"C05-roots[shipped,loaded-first={first}]", module="tplz3.c05z", func="roots", args={"conf": "shipped", "first": first}, timeout=300, family="C05-roots"))
    for cfg in (["local"] if tier == "quick" else ["local", "server"]):
        z.append(dict(name=f"C05-exclusive[shipped,{cfg}]", module="tplz3.c05z", func="exclusive", args={"conf": "shipped", "only": cfg}, timeout=900, family="C05-exclusive"))
    if tier == "thorough":
        z += [dict(name=f"C05-{f}[miniA]", module="tplz3.c05z", func=f, args={"conf": "miniA"}, timeout=600, family=f"C05-{f}") for f in ("mapping", "unambiguous", "roots", "exclusive")]
    return z


META = {
    "functions": ["spil.sid.sid.PathSid.path", "spil.sid.pathops.fs_resolver.dict_to_path/path_to_dict/_resolve_conform", "spil.sid.core.sid_factory.path_to_sid", "spil.util.utils.get_key",
                  "spil.sid.pathops.pathconfig.get_path_config/PathConfig", "resolva.Resolver.format_one/resolve_one"],
    "assumptions": ["field values that are empty, '.' or '..' are outside the claim (pathlib collapses them)", "pathlib.Path replaced by a string-preserving wrapper in fs_resolver in symbolic mode (E7); replays use the real Path"],
    "stubs": ["fs_resolver.Path -> StrPath (symbolic mode only)"],
}
