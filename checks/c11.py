from xhair.runner import Obl

M = "xhair.obl.c11"

# search, EPRE, ESUF, FIXED, JUNK (concrete, '@' = root), JPRE, JSUF (symbolic junk character in between: can never conform)
CASES = [
    ("h/a/*", "h/a/", "", "h/a/x/v1/m", "@/H/X;@/H/A/x/vv", "/H/A/x/v1/x_v1.", "QQ"),
    ("h/s/q1/*/c", "h/s/q1/v1/", "/c", "h/s/q1/v1/c", "@/H/S/q1/v1/E/q2_v1.c", "/H/S/q1/v1/E/q", "9_v1.c"),
    ("h/a/x/*/m", "h/a/", "/v1/m", "h/a/x/v2/m;h/a/x/v2/g", "@/H/A/x/v2/y_v2.m;@/H/A/x/v2/.x_v2.data.json", "/H/A/x/v2/", "Q_v2.m"),
    ("h/s/q1/v1/*", "h/s/q1/v1/", "/c", "h/s/q1/v1/m;h/s/q1/v1/c", "@/H/S/q1/v1/E/q1_v2.c", "/H/S/q1/v1/q1_v1.", "Q"),
    ("h/a/*/v1/y", "h/a/", "/v1/b", "h/a/x/v1/m;h/a/x/v1/g", "@/H/A/x/v1/O/x_v2.g", "/H/A/x/v1/", "Q_v1.b"),
    ("h/a/x/>/m", "h/a/x/v", "/m", "h/a/x/v1/m;h/a/x/v1/b", "@/H/A/x/v1/x_v2.m", "/H/A/x/v1/x_v1.", "Q"),
    ("h/*/*/*", "h/a/", "/v1", "h/s/q1/v1", "@/H/S/q1/zz", "/H/S/q1/", "Q"),
    ("h/a/**", "h/a/x/v1/", "", "h/a/x/v1/g", "@/H/A/x/v1/O/y_v1.g", "/H/A/x/v1/O/x_v1.", "Q"),
    ("h/s/q1/**", "h/s/q1/v1/", "/c", "h/s/q1/v1/c;h/s/q1/v1/m", "@/H/S/q1/v1/E/q2_v1.c;@/H/S/q1/v1/E/q1_v1.Q", "", ""),
    # a '>' search with the extension open (several typed searches of one string); side-cars next to an entity folder; overlapping ',' alternatives
    ("h/a/*/>/*", "h/a/", "/v2/g", "h/a/x/v1/m;h/a/x/v2/g;h/a/x/v1/b", "@/H/A/x/v3/O/y_v3.g", "/H/A/x/v3/x_v3.", "Q"),
    ("h/a/*", "h/a/", "", "h/a/x/v1/m", "@/H/A/.x.data.json;@/H/A/x/.v1.data.json", "/H/A/.", ".data.json"),
    ("h/a/x,*", "h/a/", "", "h/a/x;h/a/y/v1", "@/H/A/x/vv", "/H/A/x/v1/x_v1.", "QQ"),
    ("h/s/q1/v1/a,m", "h/s/q1/v1/", "", "h/s/q1/v1/m;h/s/q1/v1/c", "@/H/S/q1/v1/E/q1_v2.c", "", ""),      # the first typed search (s__o: 'a' is no extension) has no path template, the others have
    ("h/a/x.y/*", "h/a/x", "y/v1", "h/a/x.y/v1;h/a/x_y/v2;h/a/x.y", "@/H/A/x.y/vv", "", ""),      # a regex metacharacter in a literal value: the list search must not treat it as one
]
ALL_CASES = [("h/*/*", "h/a/", "", "h/s/q1"), ("h/*", "h/a/", "", ""), ("*", "h/a/", "", ""), ("h/a/*/*", "h/a/", "/v1", "h/a/x/v2"), ("h/s,a", "h/a/", "", ""), ("*/a,s", "h/a/", "", ""), ("*/*", "h/a/", "", ""), ("*/s,a/*", "h/a/", "", "h/s/q1")]


def x_obligations(tier):
    o = []
    T = 170 if tier == "quick" else 600
    for i, (s, epre, esuf, fixed, junk, jpre, jsuf) in enumerate(CASES):
        if tier == "quick" and i in (4, 7, 8):
            continue
        o.append(Obl(f"C11-paths[{s},{epre!r}+c+{esuf!r}{',junk ' + junk.split(';')[0] if i >= 9 else ''}]", M, "paths_agree", env={"VF_SEARCH": s, "VF_EPRE": epre, "VF_ESUF": esuf, "VF_FIXED": fixed, "VF_JUNK": junk, "VF_JPRE": jpre, "VF_JSUF": jsuf},
                     timeout=T, path_timeout=200, family="C11-paths",
                     bound=f"search {s!r}; entities {epre!r}+c+{esuf!r} (c any character) and {fixed}; local and server trees; junk {junk} and {jpre!r}+d+{jsuf!r} (d any character)"))
    # two types that search the same glob (miniB: pr__file / pr__doc): the file-system finder still answers like the list search
    (s_, epre_, esuf_, fixed_, junk_, jpre_, jsuf_) = ("m/p/x/it/01/s/*", "m/p/x/it/01/s/", "", "m/p/x/it/01/s/d;m/p/x/it/01/s/i;m/p/x/it/01/p/t", "@/M/PROPS/x/it/01/x-it-SAV.02.d", "", "")
    o.append(Obl(f"C11-paths[miniB,{s_}]", "xhair.obl.c11", "paths_agree", env={"VF_CONF": "miniB", "VF_SEARCH": s_, "VF_EPRE": epre_, "VF_ESUF": esuf_, "VF_FIXED": fixed_, "VF_JUNK": junk_, "VF_JPRE": jpre_, "VF_JSUF": jsuf_},
                 timeout=T, path_timeout=200, family="C11-paths", bound="miniB: search over two types sharing one glob pattern; three path configurations over the glob model"))
    (s_, epre_, esuf_, fixed_, junk_, jpre_, jsuf_) = CASES[3]
    o.append(Obl(f"C11-paths[{s_},list first,caches on]", M, "paths_agree", env={"VF_SEARCH": s_, "VF_EPRE": epre_, "VF_ESUF": esuf_, "VF_FIXED": fixed_, "VF_JUNK": junk_, "VF_JPRE": "", "VF_JSUF": "", "VF_LISTFIRST": "1", "VF_CACHES": "1"},
                 timeout=90 if tier == "quick" else T, path_timeout=200, expect="find", family="C11-paths",
                 bound="a search unfolding into several types of one string, answered by FindInList first and by FindInPaths afterwards, spil's caches ON (keys are realised: bug-hunt)"))
    for (s, epre, esuf, fixed) in ALL_CASES:
        o.append(Obl(f"C11-all[{s}]", M, "all_agree", env={"VF_SEARCH": s, "VF_EPRE": epre, "VF_ESUF": esuf, "VF_FIXED": fixed}, timeout=T, family="C11-all",
                     bound="FindInAll over constants + FindInPaths (glob stub)"))
    # the shipped data configuration's own routing (three constants-backed levels chained by parent_source)
    for s in ["*/a/*", "*/*/*", "*/a/char"] if tier == "quick" else ["*/a/*", "*/*/*", "*/a/char", "hamlet/*/*", "*/*", "hamlet/a/char/*"]:
        o.append(Obl(f"C11-all[shipped,{s}]", M, "all_agree", env={"VF_CONF": "shipped", "VF_SEARCH": s, "VF_EPRE": "hamlet/a/char/", "VF_ESUF": "", "VF_FIXED": "hamlet/s/sq010",
                                                                  "VF_CONST_TYPES": "project,asset,shot,asset__assettype", "VF_CONST_SIDS": "hamlet,hamlet/a,hamlet/s,hamlet/a/char,hamlet/a/location,hamlet/a/prop,hamlet/a/fx"},
                     timeout=T, path_timeout=300, family="C11-all", bound="shipped spil_data_conf: FindInAll over its constants-backed levels + FindInPaths (glob stub); one asset with a symbolic one-character name"))
    o.append(Obl("C11-magic[h/a/x[c]]", M, "magic_name", env={"VF_EPRE": "h/a/", "VF_ESUF": ""}, timeout=T, family="C11-magic",
                 bound="an existing entity named 'x[' + c + ']' (c any character) searched by its own Sid; expected to hit the known finding C11-glob-magic"))
    o.append(Obl("C11-reach", M, "reach", env={"VF_SEARCH": "h/a/*", "VF_EPRE": "h/a/", "VF_FIXED": "h/a/x/v1/m"}, timeout=150, expect="refute", family="C11-twin"))
    return o


def z_obligations(tier):
    # the list search under every relation of this property is FindInList's glob -> regex translation: z3 equivalence with the reference glob language
    n = 3 if tier == "quick" else 4
    return [dict(name=f"C11-glob[len<={n}]", module="tplz3.c08z", func="glob", args={"maxlen": n}, timeout=1500, family="C11-glob")]


META = {
    "functions": ["spil.sid.pathops.find_paths.FindInPaths.star_search/star_search_simple", "spil.sid.read.finders.find_glob.FindByGlob.do_find/sorted_search", "spil.sid.read.finders.find_all.FindInAll.find/get_finder",
                  "spil.sid.read.finders.find_constants.FindInConstants.star_search", "spil.sid.pathops.fs_resolver.path_to_dict/dict_to_path", "miniA spil_data_conf.get_finder_for"],
    "assumptions": ["the operating system is replaced by a model: glob.glob answers from an explicit universe of paths with segment-wise '*' matching and glob's hidden-file rule (xhair/globstub.py)",
                    "names do not start with '.', contain no glob magic ('*', '?', '[', ']') and no Sid syntax signs; single symbolic characters (all code points)",
                    "searches are enumerated"],
    "outside": ["real directory enumeration order, symlinks, case-insensitive file systems, fileseq (framed search)", "names containing '[' or '?': FindInPaths hands them to glob unescaped (see known findings)"],
    "stubs": ["find_paths.glob -> xhair.globstub", "fs_resolver.Path -> StrPath"],
}
