from xhair.runner import Obl

M = "xhair.obl.c05"

FP_QUICK = [("", 3, ""), ("/r/", 4, ""), ("/r/H/A/", 2, ""), ("/r/H/A/x/", 2, ""), ("/r/H/A/x/v1/", 2, ""), ("/r/H/A/x/v1/x", 3, ""), ("/r/H/A/x/v1/x_v1", 2, ""), ("/r/H/A/x/v1/O/x_v1.", 2, ""),
            ("/r/H/S/q1/v1/E/", 2, ""), ("/r/H/S/q1/v1/E/q1_", 1, ".c"), ("/r/H/S/q1/v1/E/q1_o_v1", 2, ""), ("/z/H/A/x/v1/", 2, ""), ("/r/H/A/x/v1/x_v1.m", 2, ""), ("/r", 2, "/A/x")]
FP_THOROUGH = FP_QUICK + [("", 5, ""), ("/r/", 6, ""), ("/r/H/A/", 4, ""), ("/r/H/A/x/", 3, ""), ("/r/H/A/x/v1/", 4, ""), ("/r/H/A/x/v1/x", 4, ""), ("/r/H/S/q1/v1/E/", 3, ""), ("/r/H/S/q1/v1/E/q1_", 3, ".c"),
                          ("/r/H/S/", 3, ""), ("/r/H/S/q1/", 3, ""), ("/z/", 4, ""), ("/r/H/", 2, "/x/v1/x_v1.m"), ("/r/H/A/x/", 2, "/x_v1.m"), ("/r/H/S/q1/v1/", 2, "/q1_v1.c")]
FP2_QUICK = [("/r/H/A/", "/v1/", "_v1.m", 1), ("/r/H/S/q1/", "/E/q1_o_", ".c", 1), ("/r/H/S/", "/v1/", "_v1.m", 1), ("/r/H/A/x/v1/x", "v1", "m", 1)]
FP2_THOROUGH = FP2_QUICK + [("/r/H/A/", "/v1/O/", "_v1.g", 1), ("/r/H/S/", "/v1/E/", "_o_v1.c", 1), ("/r/H/A/x/", "/x_", ".m", 1), ("/r/", "/A/x/v1/x_v1", "m", 1)]


def x_obligations(tier):
    o = []
    T = 170 if tier == "quick" else 600
    for cfg in ("local", "server"):
        for i, (pre, n, suf) in enumerate(FP_QUICK if tier == "quick" else FP_THOROUGH):
            if cfg == "server":
                if tier == "quick" and i % 3:
                    continue
                pre = pre.replace("/r", "/Z", 1).replace("/z", "/r", 1).replace("/Z", "/z", 1)
            o.append(Obl(f"C06-from-path[{cfg},{pre!r}+{n}{'+' + repr(suf) if suf else ''}]", M, "from_path", env={"VF_PRE": pre, "VF_N": str(n), "VF_SUF": suf, "VF_CONFIG": cfg}, timeout=T, path_timeout=200,
                         family="C06-total", bound=f"path = {pre!r}+x+{suf!r}, EVERY str x with len<={n}; configuration {cfg}"))
    for (pre, mid, suf, n) in (FP2_QUICK if tier == "quick" else FP2_THOROUGH):
        o.append(Obl(f"C06-desync-pool[{pre!r}+x+{mid!r}+y+{suf!r}]", M, "from_path_pool", env={"VF_PRE": pre, "VF_MID": mid, "VF_SUF": suf}, timeout=T, path_timeout=200,
                     family="C06-mut", bound="two independent holes (repeated field occurrences / separators), each from a 12-entry pool chosen by the solver"))
        o.append(Obl(f"C06-desync-chars[{pre!r}+c+{mid!r}+d+{suf!r}]", M, "from_path_chars", env={"VF_PRE": pre, "VF_MID": mid, "VF_SUF": suf}, timeout=T, path_timeout=200, expect="find",
                     family="C06-mut", bound="two independent holes, each one arbitrary character (all code points); bug-hunt: exhaustion not expected in the quick budget"))
    for cfg in ("local", "server"):
        seq = "/r/H/A/x/v1/x_v1.*;/r/H/A/x/v1/O/x_v1.*;/r/H/A/x/v1/x_v1.m;/r/H/A/x/v1/O/x_v1.g;/r/H/S/q1/v1/q1_v1.>;/r/H/S/q1/v1/E/q1_v1.>;/r/H/A/x/v1;/r/H/S/q1/v1/E/q1_o_v1.*;/r/H/A/X/v1;/r/H/A/X/v1/X_v1.m"
        if cfg == "server":
            seq = seq.replace("/r/", "/z/")
        o.append(Obl(f"C06-seq[{cfg}]", M, "from_path_seq", env={"VF_CONFIG": cfg, "VF_SEQ": seq, "VF_CACHES": "1"}, timeout=T, family="C06-seq",
                     bound="two paths resolved one after the other (caches on), both from a 10-entry pool that contains paths of different types with equal fields (search-symbol extension)"))
    # the same path asked under one configuration, then under the other one (a result remembered across configurations would adopt a foreign path)
    for cfg, cfg2, pre, n in [("server", "local", "/r/H/A/x/", 2), ("local", "server", "/z/H/A/x/", 2), ("server", "local", "/r/H/A/", 1)]:
        o.append(Obl(f"C06-other-config-first[{cfg2} then {cfg},{pre!r}+{n}]", M, "from_path_after_other", env={"VF_PRE": pre, "VF_N": str(n if tier == "quick" else n + 1), "VF_CONFIG": cfg, "VF_CONFIG2": cfg2}, timeout=T, path_timeout=200,
                     family="C06-seq", bound=f"Sid(path=p, config={cfg2!r}) then Sid(path=p, config={cfg!r}), p = {pre!r}+x, every x with len(x) <= {n if tier == 'quick' else n + 1}"))
    o.append(Obl("C06-reach", M, "reach_from_path", env={"VF_N": "1", "VF_PRE": "/r/H/A/"}, timeout=150, expect="refute", family="C06-twin"))
    return o


def z_obligations(tier):
    return [dict(name="C06-mapping[shipped]", module="tplz3.c05z", func="mapping", args={"conf": "shipped"}, timeout=600, family="C06-mapping")] + [dict(name=f"C06-roots[shipped,loaded-first={first}]", module="tplz3.c05z", func="roots", args={"conf": "shipped", "first": first}, timeout=300, family="C06-root") for first in ("local", "server")]


META = {
    "functions": ["spil.sid.core.sid_factory.path_to_sid/sid_factory", "spil.sid.pathops.fs_resolver.path_to_dict/_resolve_conform/dict_to_path", "spil.sid.core.sid_resolver.dict_to_sid",
                  "resolva.Resolver.resolve_one", "resolva.template.match_to_dict (duplicate placeholder check)"],
    "assumptions": ["typed results with an empty, '.' or '..' field value are outside the claim (pathlib collapses them)", "pathlib.Path replaced by a string-preserving wrapper in fs_resolver in symbolic mode (E7); replays use the real Path"],
    "stubs": ["fs_resolver.Path -> StrPath (symbolic mode only)"],
}
