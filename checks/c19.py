from xhair.runner import Obl

M = "xhair.obl.c19"


def x_obligations(tier):
    o = []
    T = 170 if tier == "quick" else 600
    Ls = [2, 3, 4] if tier == "quick" else [2, 3, 4, 5, 6, 9]
    for L in Ls:
        for oi in range(4):
            for bi in range(5):
                if tier == "quick" and (oi + bi + L) % 3 != 0:
                    continue
                o.append(Obl(f"C19-ext[L={L},order={oi},base={bi}]", M, "extrapolate", env={"VF_L": str(L), "VF_OI": str(oi), "VF_BI": str(bi)}, timeout=T, family="C19-ext",
                             bound=f"chain of {L} keys (name order #{oi}), basetype #{bi}; keytype name, explicit intermediate level, second basetype sharing a prefix and a closed placeholder chosen by the solver"))
    for L, oi, bi in ([(3, 0, 0), (4, 1, 2), (4, 2, 1), (5, 3, 3)] if tier == "quick" else [(L, oi, bi) for L in (3, 4, 5, 6) for oi in range(4) for bi in range(5) if (L + oi + bi) % 2 == 0]):
        o.append(Obl(f"C19-ext-collide[L={L},order={oi},base={bi}]", M, "extrapolate_collide", env={"VF_L": str(L), "VF_OI": str(oi), "VF_BI": str(bi)}, timeout=T, family="C19-ext",
                     bound=f"chain of {L} keys; an explicit type named like a generated one (level chosen by the solver) with another template, configured before or after the extrapolated type; optional second basetype"))
    for L, oi, bi in ([(4, 0, 0), (5, 1, 2)] if tier == "quick" else [(L, oi, bi) for L in (4, 5, 6) for oi in range(4) for bi in range(5) if (L + oi + bi) % 3 == 0]):
        o.append(Obl(f"C19-ext-tagged[L={L},order={oi},base={bi}]", M, "extrapolate_tagged", env={"VF_L": str(L), "VF_OI": str(oi), "VF_BI": str(bi)}, timeout=T, family="C19-ext",
                     bound=f"two hierarchies sharing key names but tagged differently at a level chosen by the solver, chain of {L} keys"))
    for si in range(6):
        for sj in range(6):
            if si == sj or (tier == "quick" and (si + sj) % 3 != 0):
                continue
            o.append(Obl(f"C19-pat[sel={si},{sj}]", M, "replace", env={"VF_SI": str(si), "VF_SJ": str(sj)}, timeout=T, family="C19-pat",
                         bound="two selectors from a pool of 6 (incl. '' and a non-matching one), two type names from a pool of 6, 4 replacement texts"))
    o.append(Obl("C19-samefn", M, "same_function", timeout=60, family="C19-pat"))
    o.append(Obl("C19-reach", M, "reach", env={"VF_L": "3"}, timeout=60, expect="refute", family="C19-twin"))
    return o


def z_obligations(tier):
    return [dict(name="C19-live[shipped]", module="tplz3.c01z", func="live_equals_ref", args={"conf": "shipped"}, timeout=120, family="C19-live"),
            dict(name="C19-live[miniA]", module="tplz3.c01z", func="live_equals_ref", args={"conf": "miniA"}, timeout=120, family="C19-live"),
            dict(name="C19-live[miniB]", module="tplz3.c01z", func="live_equals_ref", args={"conf": "miniB"}, timeout=120, family="C19-live")]


META = {
    "functions": ["spil.conf.util.extrapolate_templates", "spil.conf.util.pattern_replacing", "spil.conf.sid_conf_load (live table)", "spil.sid.pathops.pathconfig.PathConfig (same function)"],
    "assumptions": ["type / key names are drawn from finite pools by symbolic indices (names are dictionary keys; hashing realises them), so the quantifier over names is solver-enumerated"],
    "outside": ["configurations outside the generated grammar (more than two basetypes, more than one explicit intermediate type)"],
}
