"""C01 check definition: which obligations run in which tier."""
from xhair.runner import Obl
from checks.common import per_part

M = "xhair.obl.c01"
NTYPES = 15      # miniA: 13 types + 'bogus' + ''


def x_obligations(tier):
    o = []
    q = tier == "quick"
    T = 170 if q else 600
    o += per_part("C01", "C01-oracle", M, "oracle", tier, timeout=T)
    o += per_part("C01", "C01-colons", M, "colons", tier, timeout=T, only=["", "h/a/", "h/s/q1/v1/"] if q else None, shrink=1)
    for pre, n in ([("a:", 3), ("a:x:h/", 2), ("a__n:h/a/", 2), (":", 3), ("a:", 1)] if q else [("a:", 4), ("a:x:h/", 3), ("a__n:h/a/", 3), (":", 4), ("p:", 3), ("bogus:", 3), ("a__f:h/a/x/v1/", 2), ("s::h/", 2)]):
        o.append(Obl(f"C01-colons[{pre!r}+{n}]", M, "colons", env={"VF_PRE": pre, "VF_N": str(n)}, timeout=T, family="C01-colons", bound=f"s = {pre!r}+t, every t (':' allowed) with len<={n}"))
    for pre, n in ([("", 3), ("h/a/x", 2)] if q else [("", 4), ("h/a/x", 3), ("h/", 3), ("h/s/q1/v1/", 2), ("?", 3), ("h/a/x?", 3)]):
        o.append(Obl(f"C01-total[{pre!r}+{n}]", M, "total", env={"VF_N": str(n), "VF_PRE": pre}, timeout=T, family="C01-total", bound=f"s = {pre!r}+t, EVERY str t with len<={n} (with '?' and ':')"))
    # forced types: every type name against a skeleton of its own depth and against shorter / longer ones
    skel = [("", 4), ("h/a/", 2), ("h/a/x/v1/", 1), ("h/s/q1/v1/", 2), ("h/s/q1/v1/o/", 1)] if q else [("", 5), ("h/", 3), ("h/a/", 3), ("h/a/x/", 3), ("h/a/x/v1/", 2), ("h/s/q1/", 3), ("h/s/q1/v1/", 3), ("h/s/q1/v1/o/", 2)]
    for ti in range(NTYPES):
        for si, (pre, n) in enumerate(skel):
            if q and (ti + si) % 3:
                continue
            o.append(Obl(f"C01-uri[t={ti},{pre!r}+{n}]", M, "uri", env={"VF_N": str(n), "VF_TI": str(ti), "VF_PRE": pre}, timeout=T, family="C01-uri",
                         bound=f"forced type #{ti} (13 configured types, 'bogus', ''), s = {pre!r}+t, every t with len<={n}"))
    ship = [("hamlet/a/char/", 1, ""), ("hamlet/s/sq01", 1, "/sh0010"), ("hamlet/a/char/x/model/v00", 1, "/w/ma"), ("hamlet/", 1, ""), ("hamlet", 1, "")]
    for pre, n, suf in ship:
        o.append(Obl(f"C01-oracle[shipped,{pre!r}+{n}+{suf!r}]", M, "oracle", env={"VF_CONF": "shipped", "VF_PRE": pre, "VF_N": str(n), "VF_SUF": suf}, timeout=T, path_timeout=200, family="C01-shipped",
                     bound=f"shipped configuration: s = {pre!r}+c+{suf!r}, c one symbolic character"))
    # typing / rebuilding a plain string answers the same after a Sid OBJECT of the same string (forced, non-first type)
    # went through Sid(): spil's caches on, histories from C13's call alphabet (calls 1-3 first, every call second)
    for i in (1, 2, 3, 29):
        o.append(Obl(f"C01-history[after call#{i}]", "xhair.obl.c13", "pair", env={"VF_IDX": str(i), "VF_FIRST": "local"}, timeout=170 if tier == "quick" else 600, family="C01-history",
                     bound=f"history (call #{i}: a uri / Sid object with a forced type, call j) for every j of the call alphabet of C13, caches on"))
    # the cache in front of Sid(): the wrapper kernel under forced eviction (capacity 1 and 2), histories of 4 calls
    for ms in (1, 2):
        o.append(Obl(f"C01-cache-kernel[lru_cache,cap={ms}]", "xhair.obl.c13", "wrap", env={"VF_WRAPPER": "lru_cache", "VF_MAXSIZE": str(ms), "VF_M1": "0", "VF_M2": "0", "VF_M3": "0"}, timeout=170 if tier == "quick" else 600,
                     family="C01-history", bound="spil.util.caching.lru_cache (the decorator of sid_to_sid) around a pure function: 3 calls + the first again, capacity %d" % ms))
    o.append(Obl("C01-reach[len<=6]", M, "reach_typed", env={"VF_N": "6"}, timeout=150, expect="refute", family="C01-twin"))
    return o


def z_obligations(tier):
    z = [dict(name="C01-lang[shipped]", module="tplz3.c01z", func="lang", args={"conf": "shipped"}, timeout=300, family="C01-lang"),
         dict(name="C01-order[shipped]", module="tplz3.c01z", func="order", args={"conf": "shipped"}, timeout=300, family="C01-order")]
    if tier == "thorough":
        for conf in ("miniA", "miniB"):
            z.append(dict(name=f"C01-lang[{conf}]", module="tplz3.c01z", func="lang", args={"conf": conf}, timeout=300, family="C01-lang"))
            z.append(dict(name=f"C01-order[{conf}]", module="tplz3.c01z", func="order", args={"conf": conf}, timeout=300, family="C01-order"))
    return z


META = {
    "functions": ["spil.sid.sid.BaseSid.__new__", "spil.sid.core.sid_factory.sid_factory", "spil.sid.core.sid_factory.sid_to_sid",
                  "spil.sid.core.sid_resolver.sid_to_dict/_is_whole_match", "resolva.Resolver.resolve_first/resolve_one/resolve_all",
                  "resolva.template.match_to_dict", "spil.sid.core.query_helper.apply_query (total only)"],
    "assumptions": ["a forced-type uri that is not accepted keeps the part after 'type:' as its string (reading rule)",
                    "Z models the code's acceptance of a template as its regex with '$' read as end-of-string (sid_to_dict checks that the parsed data formats back to the whole string)"],
    "outside": ["strings longer than the partitions' bounds; more than 6 segments under miniA"],
}
