"""C01 check definition: which obligations run in which tier."""
from xhair.runner import Obl

M = "xhair.obl.c01"


def x_obligations(tier):
    o = []
    if tier == "quick":
        o.append(Obl("C01-oracle[len<=5]", M, "oracle", env={"VF_N": "5"}, timeout=150, family="C01-oracle", bound="every str s, len(s)<=5, no '?' ':'"))
        o.append(Obl("C01-colons[len<=4]", M, "colons", env={"VF_N": "4"}, timeout=150, family="C01-colons", bound="every str s, len(s)<=4, no '?'"))
        o.append(Obl("C01-total[len<=3]", M, "total", env={"VF_N": "3"}, timeout=150, family="C01-total", bound="every str s, len(s)<=3 (with '?' and ':')"))
        for ti in range(15):
            o.append(Obl(f"C01-uri[t={ti},len<=4]", M, "uri", env={"VF_N": "4", "VF_TI": str(ti)}, timeout=150, family="C01-uri", bound="forced type #%d, every str s, len(s)<=4" % ti))
        o.append(Obl("C01-reach[len<=6]", M, "reach_typed", env={"VF_N": "6"}, timeout=150, expect="refute", family="C01-twin"))
    return o


def z_obligations(tier):
    z = [dict(name="C01-lang[shipped]", module="tplz3.c01z", func="lang", args={"conf": "shipped"}, timeout=300, family="C01-lang"),
         dict(name="C01-order[shipped]", module="tplz3.c01z", func="order", args={"conf": "shipped"}, timeout=300, family="C01-order")]
    return z


META = {
    "functions": ["spil.sid.sid.BaseSid.__new__", "spil.sid.core.sid_factory.sid_factory", "spil.sid.core.sid_factory.sid_to_sid",
                  "spil.sid.core.sid_resolver.sid_to_dict", "resolva.Resolver.resolve_first/resolve_one/resolve_all",
                  "resolva.template.match_to_dict", "spil.sid.core.query_helper.apply_query (total only)"],
    "assumptions": [],
}
