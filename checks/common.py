"""Partition tables shared by the sid-core checks (miniA)."""
from xhair.runner import Obl

# (prefix, max length of the symbolic remainder): the string under test is prefix + t, every t with len(t) <= n
PARTS_QUICK = [
    ("", 5),
    ("h/a/", 3),
    ("h/s/", 3),
    ("h/a/x/", 3),
    ("h/a/x/v1/", 2),
    ("h/s/q1/v1/", 2),
    ("h/s/q1/v1/o/", 2),
    ("*/s/>/", 3),
    ("h/s/q1/v1/", 1, "/c"),
    ("h/a/", 1, "/v1/m"),
]
PARTS_THOROUGH = [
    ("", 7),
    ("h/", 5),
    ("h/a/", 5),
    ("h/s/", 5),
    ("*/*/", 4),
    ("h/a/x/", 4),
    ("h/a//", 4),
    ("h/s/q1/", 4),
    ("h/s/*/", 4),
    ("h/a/x/v1/", 3),
    ("h/a/x/*/", 3),
    ("h/s/q1/v1/", 4),
    ("h/s/q1/>/", 3),
    ("h/s/q1/v1/o/", 3),
    ("h/s/q1/v1//", 3),
    ("h/s/q1/v1/o/c", 2),
    (">/>/>/>/", 3),
    ("h/s/q1/v1/", 2, "/c"),
    ("h/s/q1/", 2, "/o/c"),
    ("h/a/", 2, "/v1/m"),
    ("h/", 1, "/x/v1/g"),
    ("", 1, "/s/q1/v1"),
]


def parts(tier):
    return PARTS_QUICK if tier == "quick" else PARTS_THOROUGH


def per_part(prop, family, module, func, tier, timeout=None, extra_env=None, expect="confirm", only=None, shrink=0):
    out = []
    for part in parts(tier):
        pre, n = part[0], part[1]
        suf = part[2] if len(part) > 2 else ""
        if only is not None and pre not in only and not (suf and "SUF" in only):
            continue
        n = max(1, n - shrink)
        env = {"VF_PRE": pre, "VF_N": str(n)}
        if suf:
            env["VF_SUF"] = suf
        env.update(extra_env or {})
        tag = ",".join(f"{k[3:].lower()}={v}" for k, v in (extra_env or {}).items())
        out.append(Obl(f"{family}[{pre!r}+{n}{'+' + repr(suf) if suf else ''}{',' + tag if tag else ''}]", module, func, env=env,
                       timeout=timeout or (170 if tier == "quick" else 600), path_timeout=120,
                       family=family, expect=expect, tier=tier,
                       bound=f"s = {pre!r} + t + {suf!r}, every str t with len(t) <= {n} (all code points)"))
    return out
