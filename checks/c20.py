"""C20: the X families of C01-C08 and C11 re-run under the second generated configuration (miniB), the Z families on
miniA's and miniB's own live objects."""
from xhair.runner import Obl

B = {"VF_CONF": "miniB"}
KEYS_B = "prj,kind,fam,item,rev,status,fmt,reel,zz,sid"

PARTS_QUICK = [("", 4, ""), ("m/p/", 2, ""), ("m/p/x/it/", 2, ""), ("m/p/x/it/01/s/", 1, ""), ("m/c/r1/01/p/", 1, ""), ("m/l/", 2, ""), ("m/l/", 1, "/j"), ("m/p/x/", 1, "/01/p/i")]
PARTS_THOROUGH = PARTS_QUICK + [("", 6, ""), ("m/", 4, ""), ("m/p/x/", 3, ""), ("m/p/x/it/01/", 2, ""), ("m/c/", 3, ""), ("m/c/r1/", 3, ""), ("m/c/r1/01/", 2, ""), ("m/l/it/", 2, ""), ("m/c/", 2, "/01/s/u"), ("*/*/", 3, "")]


def _e(**kw):
    d = dict(B)
    d.update({k: str(v) for k, v in kw.items()})
    return d


def x_obligations(tier):
    o = []
    T = 170 if tier == "quick" else 600
    parts = PARTS_QUICK if tier == "quick" else PARTS_THOROUGH

    def per_part(family, module, func, only=None, extra=None, shrink=0):
        for i, (pre, n, suf) in enumerate(parts):
            if only is not None and i not in only:
                continue
            env = _e(VF_PRE=pre, VF_N=max(1, n - shrink), VF_SUF=suf, **(extra or {}))
            tag = ",".join(f"{k[3:].lower()}={v}" for k, v in (extra or {}).items())
            o.append(Obl(f"C20-{family}[miniB,{pre!r}+{max(1, n - shrink)}{'+' + repr(suf) if suf else ''}{',' + tag if tag else ''}]", module, func, env=env, timeout=T, path_timeout=200, family=f"C20-{family}",
                         bound=f"miniB: s = {pre!r} + t + {suf!r}, every t with len<={max(1, n - shrink)}"))

    q = tier == "quick"
    per_part("C01-oracle", "xhair.obl.c01", "oracle", only=None if not q else [0, 2, 5, 7])
    per_part("C01-total", "xhair.obl.c01", "total", only=[0] if q else [0, 1, 5], shrink=1)
    for ti in ([1, 14, 16] if q else range(0, 18, 2)):
        o.append(Obl(f"C20-C01-uri[miniB,t={ti}]", "xhair.obl.c01", "uri", env=_e(VF_N=3, VF_TI=ti, VF_PRE="m/l/"), timeout=T, family="C20-C01-uri", bound="forced type, 'm/l/'+t"))
    per_part("C02-canonical", "xhair.obl.c02", "canonical", only=[1, 3, 6] if q else None)
    per_part("C02-uri", "xhair.obl.c02", "via_uri", only=[2, 5] if q else None)
    per_part("C02-fields", "xhair.obl.c02", "via_fields", only=[3, 6] if q else None, extra={"VF_ROT": "0"})
    per_part("C02-query", "xhair.obl.c02", "query", only=[4, 5] if q else None)
    for ki in range(7):
        per_part("C03-get_as", "xhair.obl.c03", "get_as", only=[(ki + 3) % 8] if q else None, extra={"VF_KI": str(ki)})
    per_part("C03-parent", "xhair.obl.c03", "parent", only=[0, 3, 7] if q else None)
    per_part("C03-untyped", "xhair.obl.c03", "untyped", only=[0, 4] if q else None)
    bases = ["m/p/x/it", "m/c/r1/01", "m/*/*", "m/l/it", "m/c/r1/01/s"]
    keys = KEYS_B.split(",")
    for bi, base in enumerate(bases):
        for ki, k in enumerate(keys):
            if (q and (bi + 2 * ki) % 7) or (not q and (bi + ki) % 2):
                continue
            o.append(Obl(f"C20-C04-apply1[miniB,{base},{k}]", "xhair.obl.c04", "apply1", env=_e(VF_BASE=base, VF_KI=ki, VF_N=2, VF_KEYS=KEYS_B, VF_ENTRY="string" if (bi + ki) % 2 else "get_with"), timeout=T,
                         family="C20-C04-apply", bound=f"miniB: base {base}, key {k}, every value of 1..2 characters"))
            if not q or (bi + ki) % 8 == 0:
                o.append(Obl(f"C20-C04-kw[miniB,{base},{k}]", "xhair.obl.c04", "kw", env=_e(VF_BASE=base, VF_KI=ki, VF_N=2, VF_KEYS=KEYS_B), timeout=T, family="C20-C04-kw", bound=f"miniB: get_with({k}=v or None)"))
    rts = [("m/p/x/", 2, ""), ("m/p/x/", 1, "/01/p/i"), ("m/c/r1/01/p/", 1, ""), ("m/l/", 1, ""), ("m/l/", 1, "/j"), ("m/p/x/a-", 1, "/01/s/k")]
    for cfg in ("main", "mirror", "archive"):
        for i, (pre, n, suf) in enumerate(rts):
            for first in (("main", "archive") if not q or i == 1 else ("main",)):
                if q and (i == 3 or (cfg == "mirror" and i % 2) or (cfg == "archive" and i in (0, 4))):
                    continue
                o.append(Obl(f"C20-C05-rt[miniB,{cfg},{pre!r}+{n}+{suf!r},loaded-first={first}]", "xhair.obl.c05", "roundtrip", env=_e(VF_PRE=pre, VF_N=n, VF_SUF=suf, VF_CONFIG=cfg, VF_FIRST=first), timeout=T, path_timeout=200,
                             family="C20-C05-rt", bound=f"miniB configuration {cfg}: Sid({pre!r}+t+{suf!r})"))
    fps = [("", 3, ""), ("/m/", 3, ""), ("/m/M/PROPS/x/", 2, ""), ("/m/M/PROPS/x/it/01/x-it-", 2, ""), ("/m/M/PROPS/x/it/01/x-it-SAV.01", 2, ""), ("/m/M/LIB/", 3, ""), ("/m/M/CUTS/r1/01/OUT/r1", 3, ""), ("/n/M/LIB/", 2, "")]
    for cfg, root in (("main", "/m/M"), ("archive", "/o/M24")):
        for i, (pre, n, suf) in enumerate(fps):
            if q and cfg == "main" and i in (1, 6):
                continue
            if cfg == "archive":
                if q and i not in (2, 4, 5):
                    continue
                pre = pre.replace("/m/M", "/o/M24").replace("PROPS", "props").replace("CUTS", "cuts").replace("LIB", "lib").replace("SAV", "wip")
                if pre == "/m/":
                    pre = "/o/"
            o.append(Obl(f"C20-C06-from-path[miniB,{cfg},{pre!r}+{n}]", "xhair.obl.c05", "from_path", env=_e(VF_PRE=pre, VF_N=n, VF_SUF=suf, VF_CONFIG=cfg), timeout=T, path_timeout=200, family="C20-C06-total",
                         bound=f"miniB configuration {cfg}: path {pre!r}+x, every x with len<={n}"))
    for (pre, mid, suf) in [("/m/M/PROPS/x/", "/01/x-", "-SAV.01.i"), ("/m/M/CUTS/", "/01/OUT/", "-PUB.01.u"), ("/m/M/LIB/it", "", "j")]:
        o.append(Obl(f"C20-C06-desync[miniB,{pre!r}+x+{mid!r}+y+{suf!r}]", "xhair.obl.c05", "from_path_pool", env=_e(VF_PRE=pre, VF_MID=mid, VF_SUF=suf, VF_CONFIG="main"), timeout=T, family="C20-C06-mut", bound="two holes from a 12-entry pool"))
    sk = [("m/", 1, "/**"), ("m/l/**?fmt=", 1, ""), ("m/p/x/it/01/s/", 1, ""), ("m/c/**/", 1, ""), ("m/*/**/", 1, ""), ("m/", 2, ""), ("m/c/r1/**?status=", 1, ""), ("m/p,", 1, "")]
    if not q:
        sk += [("", 2, ""), ("m/p/**/", 2, ""), ("m/l/", 2, "/**"), ("m/c/r1/01/", 1, "/**"), ("m/*/*?", 1, "=x"), ("m/p/x/**?rev=", 2, "")]
    for (pre, n, suf) in sk:
        o.append(Obl(f"C20-C07-ref[miniB,{pre!r}+{n}+{suf!r}]", "xhair.obl.c07", "ref", env=_e(VF_PRE=pre, VF_N=n, VF_SUF=suf), timeout=T, path_timeout=200, family="C20-C07-ref", bound=f"miniB: search {pre!r}+t+{suf!r}"))
    for (s, epre, n) in [("m/l/*", "m/l/", 3), ("m/p/x/*", "m/p/x/", 2), ("m/l/it/k", "m/l/it/", 2), ("m/*/**/k", "m/l/it/", 1), ("m/c,p", "m/", 2)]:
        o.append(Obl(f"C20-C08-find1[miniB,{s}]", "xhair.obl.c08", "find1", env=_e(VF_SEARCH=s, VF_PRE=epre, VF_N=n), timeout=T, family="C20-C08-item", bound=f"miniB: search {s!r}, list [{epre!r}+a]"))
    cases = [("m/l/*", "m/l/", ".i", "m/l/it/j", "@/M/ZZ;@/M/LIB/it.q", "/M/LIB/it.", "QQ"),
             ("m/p/x/*/*/*/i", "m/p/x/", "/01/s/i", "m/p/x/it/02/p/i;m/p/x/it/02/p/j", "@/M/PROPS/x/it/02/y-it-PUB.02.i", "/M/PROPS/x/it/02/x-it-PUB.02.", "Q"),
             ("m/p/x/it/01/s/*", "m/p/x/it/01/s/", "", "m/p/x/it/01/s/d;m/p/x/it/01/s/i;m/p/x/it/01/p/t", "@/M/PROPS/x/it/01/x-it-SAV.02.d", "", ""),   # pr__file and pr__doc search the same glob
             ("m/c/r1/>/*/u", "m/c/r1/0", "/s/u", "m/c/r1/01/s/u;m/c/r1/01/p/o", "@/M/CUTS/r1/01/OUT/r1-SAV.02.u", "/M/CUTS/r1/01/OUT/r1-SAV.01.", "Q")]
    for (s, epre, esuf, fixed, junk, jpre, jsuf) in cases:
        o.append(Obl(f"C20-C11-paths[miniB,{s}]", "xhair.obl.c11", "paths_agree", env=_e(VF_SEARCH=s, VF_EPRE=epre, VF_ESUF=esuf, VF_FIXED=fixed, VF_JUNK=junk, VF_JPRE=jpre, VF_JSUF=jsuf), timeout=T, path_timeout=200,
                     family="C20-C11-paths", bound="miniB: three path configurations (main, mirror, archive) over the glob model"))
    for s in ["m/*", "m/*/*", "*"]:
        o.append(Obl(f"C20-C11-all[miniB,{s}]", "xhair.obl.c11", "all_agree", env=_e(VF_SEARCH=s, VF_EPRE="m/l/", VF_ESUF=".i" if False else "", VF_FIXED="m/c/r1", VF_CONST_TYPES="prj,pr,ct,l_ib", VF_CONST_SIDS="m,m/p,m/c,m/l"), timeout=T,
                     family="C20-C11-all", bound="miniB: FindInAll over constants + FindInPaths"))
    o.append(Obl("C20-reach[miniB]", "xhair.obl.c01", "reach_typed", env=_e(VF_N=6), timeout=150, expect="refute", family="C20-twin"))
    return o


def z_obligations(tier):
    z = []
    for conf in ("miniA", "miniB"):
        z.append(dict(name=f"C20-C01-lang[{conf}]", module="tplz3.c01z", func="lang", args={"conf": conf}, timeout=600, family="C20-lang"))
        z.append(dict(name=f"C20-C01-order[{conf}]", module="tplz3.c01z", func="order", args={"conf": conf}, timeout=600, family="C20-order"))
        z.append(dict(name=f"C20-C19-live[{conf}]", module="tplz3.c01z", func="live_equals_ref", args={"conf": conf}, timeout=300, family="C20-live"))
        for f in ("mapping", "unambiguous"):
            z.append(dict(name=f"C20-C05-{f}[{conf}]", module="tplz3.c05z", func=f, args={"conf": conf}, timeout=900, family=f"C20-{f}"))
        first_cfg = "local" if conf == "miniA" else "main"
        z.append(dict(name=f"C20-C05-exclusive[{conf},{first_cfg}]", module="tplz3.c05z", func="exclusive", args={"conf": conf, "only": first_cfg if tier == "quick" else ""}, timeout=900, family="C20-exclusive"))
        z.append(dict(name=f"C20-C05-roots[{conf}]", module="tplz3.c05z", func="roots", args={"conf": conf, "first": "" if conf == "miniA" else "mirror"}, timeout=300, family="C20-roots"))
    return z


META = {
    "functions": ["the library code of C01-C08 and C11 (see those checks), executed under a second generated configuration"],
    "assumptions": ["'any well-formed configuration' is decided for two generated configurations (miniA through C01-C19, miniB here), each for every input inside the bounds; a configuration is consumed concretely at import (re.compile), so the quantifier over configurations is by enumeration",
                    "miniB: renamed keys / basetypes / type codes, leaf key 'fmt', third basetype, one more level, '-' and '.' separators, three path configurations (one with its own mapping vocabulary), value codes shared between keys"],
    "outside": ["configurations outside the two generated ones"],
}
