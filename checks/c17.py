from xhair.runner import Obl

M = "xhair.obl.c17"


def x_obligations(tier):
    o = []
    T = 170 if tier == "quick" else 600
    sids = [("h/a/x/v1/m", "h/a/x/v2/m"), ("h/a/x/v1", "h/a/x/v2")] if tier == "quick" else [("h/a/x/v1/m", "h/a/x/v2/m"), ("h/a/x/v1", "h/a/x/v2"), ("h/a/x/v1/m", "h/a/x/v1/g"), ("h/s/q1/v1/c", "h/s/q1/v1/o/c")]
    variants = [(0, 1, 0, 0), (0, 0, 1, 1), (1, 3, 1, 2)] if tier == "quick" else [(0, 1, 0, 0), (0, 0, 1, 1), (1, 3, 1, 2), (0, 2, 0, 3), (1, 1, 0, 1)]
    for (sid, other) in sids:
        for first in (0, 1):
            for vi, (ok, ov, nk, nv) in enumerate(variants):
                if tier == "quick" and (vi + first) % 2 and sid != "h/a/x/v1/m":
                    continue
                o.append(Obl(f"C17-crash[{sid},first-write={first},old#{ok}{ov},new#{nk}{nv}]", M, "crash",
                             env={"VF_SID": sid, "VF_OTHER": other, "VF_FIRST_WRITE": str(first), "VF_OLD_K": str(ok), "VF_OLD_V": str(ov), "VF_NEW_K": str(nk), "VF_NEW_V": str(nv)}, timeout=T, family="C17-crash",
                             bound="crash before each of the first 7 file-system effects of the write; a dying write stores 0, 1, 9 or 30 characters (solver-chosen)"))
        # the interrupted write carries the LONG value, the next completed write makes the data shorter (a stale temporary file must not show)
        for first in (0, 1):
            o.append(Obl(f"C17-crash[{sid},first-write={first},long-then-shorter]", M, "crash",
                         env={"VF_SID": sid, "VF_OTHER": other, "VF_FIRST_WRITE": str(first), "VF_OLD_K": "0", "VF_OLD_V": "0", "VF_NEW_K": "0", "VF_NEW_V": "1", "VF_NEXT": "shorten"}, timeout=T, family="C17-crash",
                         bound="as C17-crash; the interrupted write carries a long value, the next completed write a one-character value for the same key"))
        o.append(Obl(f"C17-crash[{sid},nested value]", M, "crash", env={"VF_SID": sid, "VF_OTHER": other, "VF_FIRST_WRITE": "0", "VF_OLD_K": "0", "VF_OLD_V": "0", "VF_NEW_K": "1", "VF_NEW_V": "4", "VF_NESTED": "1"},
                     timeout=T, family="C17-crash", bound="as C17-crash; the written value is a nested mapping and one of the torn-write lengths ends exactly after its inner closing brace"))
        for mode in range(4):
            for lo in ((0, 20, 40, 60) if mode == 0 else (0,)):
                if tier == "quick" and sid != "h/a/x/v1/m" and lo:
                    continue
                o.append(Obl(f"C17-corrupt[{sid},mode={mode},cut>={lo}]", M, "corrupt", env={"VF_SID": sid, "VF_OTHER": other, "VF_MODE": str(mode), "VF_CUT_LO": str(lo)}, timeout=T, family="C17-corrupt",
                             bound="side-car truncated at each of 20 positions / emptied / a directory / unreadable with one of 6 exceptions (solver-chosen)"))
    o.append(Obl("C17-reach", M, "reach", timeout=100, expect="refute", family="C17-twin"))
    return o


META = {
    "functions": ["spil.sid.pathops.write_paths._write_data / WriteToPaths.set/update", "spil.sid.pathops.getter_paths.GetFromPaths.get_data", "spil.sid.read.getters.getter_finder.GetByFinder.get", "json (real module)"],
    "assumptions": ["file system = xhair/memfs.py with an effect log: the process can die before any state-changing effect; a dying write is torn (a prefix reaches the file); Path.replace is atomic (POSIX rename)",
                    "the crash point and the torn-write length are symbolic integers; old / new values are enumerated partitions"],
    "outside": ["durability (fsync) and a real second process", "truncation inside a multi-byte UTF-8 sequence (the model stores text; covered by the unreadable-with-UnicodeDecodeError case)"],
    "stubs": ["memfs.MemPath", "globstub"],
}
