from xhair.runner import Obl

M = "xhair.obl.c18"

DPS_QUICK = ["00", "01", "09", "10", "99"]
DPS_THOROUGH = ["00", "01", "09", "10", "19", "90", "99"]
# (conf, PRE, SUF, BASE)
SKEL = [
    ("miniA", "h/a/x/", "/m", "h/a/x"),
    ("miniA", "h/s/q1/", "", "h/s/q1"),
    ("miniA", "h/s/q1/", "/o/c", "h/s/q1"),
    ("miniA", "h/a/v091x/", "/m", "h/a/v091x"),      # the version token also occurs inside another field (asset 'v091x')
    ("shipped", "hamlet/a/char/ophelia/model/", "/w/ma", "hamlet/a/char/ophelia/model"),
    ("shipped", "hamlet/a/char/ophelia/model/", "/w", "hamlet/a/char/ophelia/model"),
    ("shipped", "hamlet/s/sq010/sh0010/anim/", "", "hamlet/s/sq010/sh0010/anim"),
    ("shipped", "hamlet/s/sq010/sh0010/fx/", "/p/smoke/vdb", "hamlet/s/sq010/sh0010/fx"),
]


def x_obligations(tier):
    o = []
    T = 170 if tier == "quick" else 600
    dps = DPS_QUICK if tier == "quick" else DPS_THOROUGH
    for si, (conf, pre, suf, base) in enumerate(SKEL):
        env0 = {"VF_CONF": conf, "VF_PRE": pre, "VF_SUF": suf, "VF_BASE": base, "MINI_VDIGITS": "3"}
        for di, dp in enumerate(dps):
            if tier == "quick" and (si + di) % 2 and dp not in ("99",) and not (pre == "h/a/v091x/" and dp == "09"):
                continue
            o.append(Obl(f"C18-next[{conf},{pre}v{dp}?{suf}]", M, "next_of", env=dict(env0, VF_DP=dp), timeout=T, family="C18-next",
                         bound=f"Sid {pre}v{dp}<d>{suf}, last digit d symbolic; configuration {conf}"))
        o.append(Obl(f"C18-first[{conf},{base}]", M, "first_version", env=env0, timeout=T, family="C18-next", bound="Sid without version, nothing existing"))
        heavy = conf == "shipped" and si not in (4,)
        if tier == "thorough" or not heavy:
            o.append(Obl(f"C18-last[{conf},{pre}v09?|v10?{suf}]", M, "last_of", env=dict(env0, VF_DP="09", VF_DP2="10"), timeout=T, path_timeout=200, family="C18-last",
                         bound="existing versions v09<c>, v10<d>, c, d symbolic digits"))
        for star in (0, 1, 2, 3):
            for dp in (["01", "99"] if tier == "quick" else ["00", "01", "09", "10", "99"]):
                if tier == "quick" and (heavy or ((star + si + int(dp)) % 2 and not (star == 3 and si == 0))):
                    continue
                o.append(Obl(f"C18-new[{conf},{pre}v{dp}?{suf},probe={star}]", M, "new_of", env=dict(env0, VF_DP=dp, VF_STAR=str(star)), timeout=T, path_timeout=200, family="C18-new",
                             bound=f"existing v000 and v{dp}<c> (c symbolic digit); probe {['get_new', 'get_next on *', 'get_next on >', 'get_new on a non-existing own version'][star]}"))
        for dp in (["00", "99"] if tier == "quick" else ["00", "09", "10", "99", "98"]):
            if tier == "quick" and conf == "shipped":
                continue
            o.append(Obl(f"C18-publish[{conf},{pre}v{dp}?{suf}]", M, "publish", env=dict(env0, VF_DP=dp), timeout=T, path_timeout=200, family="C18-new",
                         bound=f"existing v{dp}<c>; get_new, publish, get_new again"))
    for (conf, pre, suf, base) in (SKEL[1], SKEL[0], SKEL[5]):
        for dp in ["00", "99"]:
            if conf == "shipped" and dp == "99" and tier == "quick":
                continue
            o.append(Obl(f"C18-publish-star[{conf},{pre}v{dp}?{suf}]", M, "publish_star", env={"VF_CONF": conf, "VF_PRE": pre, "VF_SUF": suf, "VF_BASE": base, "MINI_VDIGITS": "3", "VF_DP": dp, "VF_CACHES": "1"},
                         timeout=T, path_timeout=200, family="C18-new", bound=f"existing v{dp}<c>; get_next on the '*' / '>' version Sid, publish, get_next again -- spil's caches ON"))
    # a Sid typed through its uri prefix with a type that is NOT the first match of its string (node vs ext): get_next keeps type and fields
    for conf, pre, suf, base in [("shipped", "shot__cache_node:hamlet/s/sq010/sh0010/anim/", "/w/abc", "hamlet/s/sq010/sh0010/anim")]:
        for dp in (["01"] if tier == "quick" else ["00", "09", "99"]):
            o.append(Obl(f"C18-next[{conf},{pre}v{dp}?{suf}]", M, "next_of", env={"VF_CONF": conf, "VF_PRE": pre, "VF_SUF": suf, "VF_BASE": base, "MINI_VDIGITS": "3", "VF_DP": dp}, timeout=T, family="C18-next",
                         bound=f"forced (non-first-match) type: Sid {pre}v{dp}<d>{suf}, last digit d symbolic; configuration {conf}"))
    o.append(Obl("C18-next-anychar[miniA]", M, "next_any", env={"VF_CONF": "miniA", "VF_DP": "00", "MINI_VDIGITS": "3"}, timeout=60 if tier == "quick" else 600, expect="find", family="C18-next",
                 bound="version 'v00'+<any character> (Unicode digits included): never raises, result empty or in the pattern; bug-hunt in quick"))
    o.append(Obl("C18-reach", M, "reach", env={"MINI_VDIGITS": "3"}, timeout=100, expect="refute", family="C18-twin"))
    return o


META = {
    "functions": ["spil.sid.sid.DataSid.get_last/get_next/get_new", "spil_hamlet_conf.hamlet_plugins.next_get.NextGetter.get_attr", "spil.sid.read.getters.getter_all.GetFromAll.get_attr/get_getter",
                  "spil_data_conf.get_getter_for (miniA and shipped)", "spil.sid.read.finders.find_all.FindInAll.find", "spil.sid.read.finders.find_glob.FindByGlob.sorted_search"],
    "assumptions": ["existing versions are served by a type-aware list source behind a stubbed find_all.get_finder", "leading version digits are enumerated partitions, the last digit (and the second existing version's last digit) is symbolic",
                    "miniA runs with a three-digit version pattern (NextGetter formats 'v%03d')"],
    "outside": ["sequences longer than two publish steps", "real file-system trees"],
    "stubs": ["find_all.get_finder -> TypedList stub"],
}
