from xhair.runner import Obl

M = "xhair.obl.c16"
SEARCHES = ["h/a/x/*/*", "h/a/x/v1/y", "h/a/x/v1/m", "h/a/**", "h/a/x/>/m", "h/*/**/c,m", "h/a/x/v9/m", "h/a/x/*", "h/*", "h/a/x/v1/*?ext=y", "h/a/x/>/y", "h/a/x,*/v1/m"]


def x_obligations(tier):
    o = []
    T = 170 if tier == "quick" else 600
    firsts = [(0, 0), (2, 2)] if tier == "quick" else [(0, 0), (2, 2), (1, 1), (4, 3), (3, 0)]
    for si, s in enumerate(SEARCHES):
        for fi, (a1, e1) in enumerate(firsts):
            if tier == "quick" and (si + fi) % 2:
                continue
            o.append(Obl(f"C16-get[{s},first=attrs#{a1}/enc#{e1}]", M, "get_vs_find", env={"VF_SI": str(si), "VF_A1": str(a1), "VF_E1": str(e1)}, timeout=T, path_timeout=200, family="C16-get",
                         bound="5 entities (3 with data) in the memfs model; get twice: first call fixed, second call's attribute list (3) and sid_encode (3) chosen by the solver; compared with FindInPaths.find"))
        if tier == "thorough" or si in (0, 1, 4, 6, 8, 10, 11):
            o.append(Obl(f"C16-all[{s}]", M, "all_vs_find", env={"VF_SI": str(si)}, timeout=T, path_timeout=200, family="C16-all", bound="GetFromAll vs FindInAll, attribute list and encoder chosen by the solver"))
    for si in (0, 2):
        o.append(Obl(f"C16-all[{SEARCHES[si]},after get_next]", M, "all_vs_find", env={"VF_SI": str(si), "VF_PRELUDE": "1", "VF_CACHES": "1"}, timeout=T, path_timeout=200, family="C16-all",
                     bound="as C16-all, after Sid.get_next('version') asked the data configuration for an attribute-specific Getter (spil's caches ON)"))
    # a Getter of the NON-default path configuration reads that configuration's tree
    for si in (0, 4, 7):
        o.append(Obl(f"C16-get[{SEARCHES[si]},server]", M, "get_vs_find", env={"VF_SI": str(si), "VF_A1": "0", "VF_E1": "0", "VF_CONFIG": "server"}, timeout=T, path_timeout=200, family="C16-get",
                     bound="as C16-get, on GetFromPaths('server') / FindInPaths('server') (the entities and their data live in the server tree only)"))
    # miniB: one third-level type without Getter among siblings of the same depth that have one (as the shipped asset__assettype / shot__sequence)
    ents = "m/p/x;m/c/r1;m/p/y;m/l/it/j;m/c/r1/01/s/u"
    srch = "m/*/*;m/c,l/*;*/*/*;m/l/*/*;m/*"
    for si in range(5):
        if tier == "quick" and si in (3,):
            continue
        o.append(Obl(f"C16-all[miniB,{srch.split(';')[si]}]", M, "all_vs_find", env={"VF_CONF": "miniB", "VF_CONFIG": "main", "VF_SI": str(si), "VF_ENTITIES": ents, "VF_SEARCHES": srch, "VF_NOGETTER": "prj,pr,ct,l_ib,ct__reel",
                                                                                       "VF_NOGETTER_SID": "m/c/r1", "VF_D0": "1", "VF_D1": "2", "VF_D2": "3"},
                     timeout=T, path_timeout=200, family="C16-all", bound="miniB: GetFromAll vs FindInAll; a typed search without Getter sorts before typed searches with one"))
    o.append(Obl("C16-reach", M, "reach", timeout=100, expect="refute", family="C16-twin"))
    return o


def z_obligations(tier):
    return [dict(name="C16-conf-getter-instances[shipped]", module="tplz3.misc", func="getter_instances", args={"conf": "shipped"}, timeout=120, family="C16-conf")]


META = {
    "functions": ["spil.sid.read.getter.Getter.get/get_one/get_data/get_attr", "spil.sid.read.getters.getter_finder.GetByFinder.get/do_get", "spil.sid.read.getters.getter_all.GetFromAll.get/get_data/get_attr/get_getter",
                  "spil.sid.pathops.getter_paths.GetFromPaths.get_data", "spil.sid.pathops.find_paths.FindInPaths", "miniA spil_data_conf.get_getter_for"],
    "assumptions": ["file system = xhair/memfs.py, glob = xhair/globstub.py over the memfs paths", "searches enumerated; attribute lists and encoders from finite pools chosen by symbolic indices (solver-enumerated)"],
    "outside": ["random attribute data, trees larger than 5 entities"],
    "stubs": ["memfs.MemPath", "globstub"],
}
