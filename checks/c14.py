from xhair.runner import Obl

M = "xhair.obl.c14"
# type index: 0 natural; 1.. = list(conf.sid_templates) of miniA: a__f a__g a__version a__n a s__f s__c s__of s__o s__version s__q s p
PAIRS_QUICK = [(0, 0, "", 2), (0, 2, "h/a/x/v1/", 1), (1, 2, "h/a/x/v1/", 1), (6, 7, "h/s/q1/v1/", 1), (0, 9, "h/s/q1/v1/", 1), (0, 0, "h/a/", 1)]
PAIRS_THOROUGH = PAIRS_QUICK + [(0, 0, "", 3), (0, 0, "h/a/", 2), (7, 9, "h/s/q1/v1/", 2), (6, 9, "h/s/q1/v1/", 2), (0, 6, "h/s/q1/v1/", 2), (2, 1, "h/a/x/v1/", 2), (0, 13, "", 2), (5, 12, "h/", 1)]


def x_obligations(tier):
    o = []
    T = 170 if tier == "quick" else 600
    pairs = PAIRS_QUICK if tier == "quick" else PAIRS_THOROUGH
    for ti, tj, pre, n in pairs:
        env = {"VF_TI": str(ti), "VF_TJ": str(tj), "VF_PRE": pre, "VF_N": str(n)}
        b = f"Sids of '{pre}'+a and '{pre}'+b, every a, b with len <= {n}; forced type indices {ti},{tj} (0 = natural)"
        o.append(Obl(f"C14-eq-uri[{ti},{tj},{pre!r}+{n}]", M, "eq_uri", env=env, timeout=T, family="C14-eq", bound=b))
        o.append(Obl(f"C14-order[{ti},{tj},{pre!r}+{n}]", M, "order", env=env, timeout=T, family="C14-order", bound=b))
        o.append(Obl(f"C14-eq-str[{ti},{pre!r}+{n}]", M, "eq_str", env=env, timeout=T, family="C14-eq", bound=b + "; plain string symbolic"))
    o.append(Obl("C14-hash-set", M, "hash_set", timeout=T, family="C14-hash", bound="13 x 13 pool of same-string / different-type / untyped Sids, real __hash__"))
    parts = [("", 3, ""), ("h/a/", 2, ""), ("h/s/q1/v1/", 1, ""), ("h/s/q1/v1/o/", 1, "")] if tier == "quick" else [("", 4, ""), ("h/a/", 3, ""), ("h/a/x/", 3, ""), ("h/s/q1/v1/", 2, ""), ("h/s/q1/v1/o/", 2, ""), ("h/s/q1/v1/", 1, "/c")]
    for op in range(10):
        for pre, n, suf in parts:
            if tier == "quick" and (op + len(pre)) % 2 and op not in (0, 3, 9):
                continue
            if tier == "quick" and op in (2, 4, 6) and n > 1:
                n = n - 1
            o.append(Obl(f"C14-frozen[op={op},{pre!r}+{n}{'+' + repr(suf) if suf else ''}]", M, "frozen", env={"VF_OP": str(op), "VF_PRE": pre, "VF_N": str(n), "VF_SUF": suf}, timeout=T, family="C14-frozen",
                         bound=f"Sid('{pre}'+t+'{suf}'), every t with len<={n}; operation group #{op} with mutation of every returned container; symbolic 1-char value"))
    for pre, n in [("", 3), ("h/a/", 2)]:
        o.append(Obl(f"C14-frozen-cached[{pre!r}+{n}]", M, "frozen", env={"VF_OP": "3", "VF_PRE": pre, "VF_N": str(n), "VF_CACHES": "1"}, timeout=T, expect="find", family="C14-shared",
                     bound="same with spil's caches ON (cache keys are realised: bug-hunt only, exhaustion not expected)"))
    for pre, n in [("h/a/", 1), ("h/s/q1/v", 1)]:
        o.append(Obl(f"C14-frozen-cached[op=10,{pre!r}+{n}]", M, "frozen", env={"VF_OP": "10", "VF_PRE": pre, "VF_N": str(n), "VF_CACHES": "1"}, timeout=90 if tier == "quick" else T, expect="find", family="C14-shared",
                     bound="queries (also of optional values only) with spil's caches ON: later Sids of that string are what they were (bug-hunt)"))
    # a Sid that still carries a REFUSED query (it shares the base Sid's resolved fields when the caches are on) is not equal to the base Sid
    for pre, suf2 in [("h/a/", "?zz=1"), ("h/s/q1/v", "?q=zz")]:
        o.append(Obl(f"C14-eq-uri[refused query,{pre!r}+1 vs +1+{suf2!r}]", M, "eq_uri", env={"VF_TI": "0", "VF_TJ": "0", "VF_PRE": pre, "VF_N": "1", "VF_SUF2": suf2, "VF_CACHES": "1"}, timeout=60 if tier == "quick" else T,
                     expect="find", family="C14-eq", bound="Sid(pre+a) against Sid(pre+b+refused query), a, b one character; spil's caches ON (keys are realised: bug-hunt)"))
    o.append(Obl("C14-reach", M, "reach", env={"VF_PRE": "h/a/", "VF_N": "2"}, timeout=150, expect="refute", family="C14-twin"))
    return o


META = {
    "functions": ["spil.sid.sid.StringSid.__eq__/__hash__/__lt__ (functools.total_ordering)", "spil.sid.sid.TypedSid.fields/get_as/get_with/parent/as_query/uri/copy/is_leaf", "spil.sid.sid.StringSid.__truediv__", "spil.sid.sid.PathSid.path",
                  "spil.sid.core.query_helper.update", "spil.sid.core.sid_factory.*"],
    "assumptions": ["hash behaviour is checked on a finite pool (hashing realises symbolic strings)", "pathlib.Path replaced by a string-preserving wrapper in fs_resolver (E7) for the path() operation"],
}
