from xhair.runner import Obl

M = "xhair.obl.c15"
SIDS = ["h/a/x/v1/m", "h/a/x/v1/b", "h/a/x/v1/g", "h/a/x/v1", "h/a/x", "h/a/y/v1/m", "h/s/q1/v1/o", "h", "h/a/x.y/v1/m", "bogus/sid"]


def x_obligations(tier):
    o = []
    T = 170 if tier == "quick" else 600
    for si in range(6):
        if tier == "quick" and si % 2:
            continue
        o.append(Obl(f"C15-two[{SIDS[si]}]", M, "two_sids", env={"VF_SI": str(si)}, timeout=T, family="C15-seq", bound="create both, set on the first, set on a second Sid chosen by the solver (file, sibling extension, other folder, folder, parent)"))
    ops = ["set", "update", "create", "create_data"]
    variants = [(0, 2, 1, 3), (2, 1, 2, 0)] if tier == "quick" else [(0, 2, 1, 3), (2, 1, 2, 0), (1, 5, 0, 4), (0, 0, 0, 2)]
    for oi, op in enumerate(ops):
        for si, sid in enumerate(SIDS):
            for vi, (k1, v1, wk2, wv2) in enumerate(variants):
                if tier == "quick" and (oi + si + vi) % 3:
                    continue
                for cfg in (["local"] if tier == "quick" or si else ["local", "server"]):
                    o.append(Obl(f"C15-step[{op},{sid},stored#{k1}{v1},second#{wk2}{wv2},{cfg}]", M, "step",
                                 env={"VF_OP": op, "VF_SI": str(si), "VF_K1": str(k1), "VF_V1": str(v1), "VF_WK2": str(wk2), "VF_WV2": str(wv2), "VF_CONFIG": cfg}, timeout=T, family="C15-step",
                                 bound="pre-state: entity present/absent x side-car absent/holding one pair; written pair chosen by the solver from 3 keys x 6 values (incl. 'sid', None, int, non-ASCII)"))
    if tier == "quick":      # a Writer of the NON-default path configuration (thorough runs every operation on both)
        for op, si in (("update", 0), ("set", 3)):
            o.append(Obl(f"C15-step[{op},{SIDS[si]},stored#02,second#13,server]", M, "step", env={"VF_OP": op, "VF_SI": str(si), "VF_K1": "0", "VF_V1": "2", "VF_WK2": "1", "VF_WV2": "3", "VF_CONFIG": "server"},
                         timeout=T, family="C15-step", bound="as C15-step, WriteToPaths('server') / GetFromPaths('server')"))
    o.append(Obl("C15-sidecar-kernel", M, "sidecar_kernel", timeout=T, family="C15-sidecar", bound="8 x 8 names with dots at every position, real pathlib"))
    o.append(Obl("C15-sidecar-kernel[shipped]", M, "sidecar_kernel", env={"VF_CONF": "shipped"}, timeout=T, family="C15-sidecar", bound="the shipped spil_data_conf.get_data_json_path, 8 x 8 names, real pathlib"))
    for conf, pool in [("miniA", "h/a/x;h/s/q1;h/a/x/v1/m;h/s/q1/v1/o/c;h/a/x/v1"),
                       ("shipped", "hamlet/a/char/ophelia;hamlet/s/sq010/sh0010;hamlet/s/sq010;hamlet/a/char/ophelia/model/v001/w/ma;hamlet/s/sq010/sh0010/anim")]:
        o.append(Obl(f"C15-attr-readback[{conf}]", M, "attr_readback", env={"VF_CONF": conf, "VF_POOL": pool}, timeout=T, family="C15-read",
                     bound=f"{conf} data configuration: 5 Sids of types configured with a Getter x 2 keys x 6 values; read through GetFromPaths, sid.get_attr, GetFromAll.get_attr / get_data"))
    o.append(Obl("C15-reach", M, "reach", timeout=60, expect="refute", family="C15-twin"))
    return o


META = {
    "functions": ["spil.sid.pathops.write_paths.WriteToPaths.create/update/set", "write_paths._write_data/_create_parent", "spil.sid.pathops.getter_paths.GetFromPaths.get_data", "spil_data_conf.get_data_json_path",
                  "spil.sid.sid.PathSid.path", "json (real module)"],
    "assumptions": ["the file system is the in-memory model xhair/memfs.py (path string -> directory | text), pathlib.Path replaced by MemPath with PurePosixPath's name/suffix rules",
                    "one inductive step from an arbitrary pre-state (entity present/absent, side-car absent or holding one pair) instead of call histories; two-entity sequences separately",
                    "data keys / values / Sids are drawn from finite pools by symbolic indices (the real json module realises strings): the solver enumerates them"],
    "outside": ["visibility to a new process, real disk semantics, sequences longer than 3 operations"],
    "stubs": ["fs_resolver.Path / write_paths / getter_paths -> xhair.memfs.MemPath"],
}
