from xhair.runner import Obl

M = "xhair.obl.c08"

SEARCHES_QUICK = ["h/a/*", "h/*/x", "h/a/x/v1/y", "h/a/x/v1/m", "h/a/x/v1/m?ext=y", "h/a/x/v1/y?version=v2", "h/s,a/*", "h/a/**", "h/s/q1/**/c", "*/*", "h/*/*?t=s", "h/a/x[1]", "h/a/x*", "junk/*"]
# (no '>' searches here: "last per group" is C09's subject, C08's glob reference does not model it)
SEARCHES_THOROUGH = SEARCHES_QUICK + ["*", "h/*/**/y", "h/a/x?version=v1", "h/a/x,y", "h/a/*x", "h/s/*/v1/z", "h/s/q1/v1/o/*", "h/a/x/*/g", "h/**", "h/a/**/**", "h/a/x/v1/*?ext=y", "h/a/x/v1/b,g"]
ENTRIES_QUICK = [("", 5, ""), ("h/a/", 3, ""), ("h/a/x/v1/", 2, ""), ("h/s/q1/v1/", 2, "h/s/q1/v1/c")]
ENTRIES_THOROUGH = [("", 7, ""), ("h/a/", 4, ""), ("h/a/x/v1/", 3, ""), ("h/s/q1/v1/", 3, "h/s/q1/v1/c"), ("h/s/q1/v1/o/", 2, "h/a/x"), ("h/", 4, "h/a/x[1]")]


def x_obligations(tier):
    o = []
    T = 170 if tier == "quick" else 600
    searches = SEARCHES_QUICK if tier == "quick" else SEARCHES_THOROUGH
    entries = ENTRIES_QUICK if tier == "quick" else ENTRIES_THOROUGH
    for si, s in enumerate(searches):
        for ei, (pre, n, fixed) in enumerate(entries):
            if tier == "quick" and (si + ei) % 2:
                continue
            env = {"VF_SEARCH": s, "VF_PRE": pre, "VF_N": str(n), "VF_FIXED": fixed}
            o.append(Obl(f"C08-find1[{s},{pre!r}+{n}{',+' + fixed if fixed else ''}]", M, "find1", env=env, timeout=T, family="C08-item",
                         bound=f"search {s!r} (concrete), list = [{pre!r}+a{', ' + repr(fixed) if fixed else ''}], EVERY str a with len<={n}"))
        pre, n, fixed = entries[si % len(entries)]
        o.append(Obl(f"C08-match[{s},{pre!r}+{n}]", M, "match1", env={"VF_SEARCH": s, "VF_PRE": pre, "VF_N": str(n)}, timeout=T, family="C08-match",
                     bound=f"Sid({pre!r}+a).match({s!r}), every a with len<={n}"))
    # or-lists inside a free segment (typed, no other search symbol) and or-lists of two un-typeable alternatives
    # an untyped literal that is itself in the list finds nothing; a '*' at the type position matches both branches
    for (s, pre, n, fixed) in [("h/x", "h/", 2, "h/x"), ("zz/top", "zz/", 3, "zz/top"), ("h/*/*", "h/s/", 2, "h/a/x"), ("*/*/*", "h/s/", 2, "")]:
        o.append(Obl(f"C08-find1[{s},{pre!r}+{n}{',+' + fixed if fixed else ''}]", M, "find1", env={"VF_SEARCH": s, "VF_PRE": pre, "VF_N": str(n), "VF_FIXED": fixed}, timeout=T, family="C08-item",
                     bound=f"search {s!r} (concrete), list = [{pre!r}+a{', ' + repr(fixed) if fixed else ''}], EVERY str a with len<={n}"))
        o.append(Obl(f"C08-match[{s},{pre!r}+{n}]", M, "match1", env={"VF_SEARCH": s, "VF_PRE": pre, "VF_N": str(n)}, timeout=T, family="C08-match", bound=f"Sid({pre!r}+a).match({s!r}), every a with len<={n}"))
    for (s, pre, n, fixed) in [("h/a/x,y", "h/a/", 2, ""), ("h/x,y/*", "h/y/", 2, ""), ("h/x,y/*", "h/", 3, "h/y/zz"), ("h/a/x,y/v1", "h/a/", 1, "h/a/y/v1")]:
        o.append(Obl(f"C08-find1[{s},{pre!r}+{n}{',+' + fixed if fixed else ''}]", M, "find1", env={"VF_SEARCH": s, "VF_PRE": pre, "VF_N": str(n), "VF_FIXED": fixed}, timeout=T, family="C08-item",
                     bound=f"search {s!r} (concrete), list = [{pre!r}+a{', ' + repr(fixed) if fixed else ''}], EVERY str a with len<={n}"))
        o.append(Obl(f"C08-match[{s},{pre!r}+{n}]", M, "match1", env={"VF_SEARCH": s, "VF_PRE": pre, "VF_N": str(n)}, timeout=T, family="C08-match", bound=f"Sid({pre!r}+a).match({s!r}), every a with len<={n}"))
    for si, s in enumerate(searches if tier == "thorough" else searches[:6]):
        o.append(Obl(f"C08-find2[{s}]", M, "find2", env={"VF_SEARCH": s, "VF_PRE": "h/", "VF_PRE2": "h/a/", "VF_N": "2" if tier == "quick" else "3"}, timeout=T, family="C08-item",
                     bound="two symbolic entries 'h/'+a, 'h/a/'+b (possibly equal)"))
    o.append(Obl("C08-as_sid", M, "as_sid_same", env={"VF_SEARCH": "h/a/*", "VF_PRE": "h/a/", "VF_N": "3"}, timeout=T, family="C08-item"))
    o.append(Obl("C08-reach", M, "reach", env={"VF_SEARCH": "h/a/*", "VF_PRE": "h/a/", "VF_N": "3"}, timeout=100, expect="refute", family="C08-twin"))
    return o


def z_obligations(tier):
    n = 3 if tier == "quick" else 4
    return [dict(name=f"C08-glob[len<={n}]", module="tplz3.c08z", func="glob", args={"maxlen": n}, timeout=1500, family="C08-glob")]


META = {
    "functions": ["spil.sid.read.finders.find_list.glob2re/FindInList.star_search", "spil.sid.read.finder.Finder.find", "spil.sid.read.finders.find_glob.FindByGlob.do_find", "spil.sid.sid.TypedSid.match", "spil.sid.read.tools.unfold_search"],
    "assumptions": ["search strings are enumerated (a regex has to be concrete to be compiled); list entries are symbolic", "match clause: typed, concrete self"],
    "outside": ["searches outside the enumerated list; lists of more than two symbolic entries"],
}
