from xhair.runner import Obl

M = "xhair.obl.c09"

# (search, prefix, mid, tail, fixed)  entries: prefix+a+mid+tail , prefix+c+mid+d
LISTS = [
    ("h/a/>/*", "h/a/", "/v", "1", ""),
    ("h/a/>/*", "h/a/x", "/v", "2", "h/a/x-y/v1"),
    ("h/s/q1/>", "h/s/q", "/v", "1", ""),
    ("h/a/*/>", "h/a/", "/v", "1", "h/a/x/v9"),
    ("h/a/>/>", "h/a/", "/v", "3", ""),
    ("h/s/q1/>/*", "h/s/q1/v", "/", "c", "h/s/q1/v1/m"),
    ("h/a/x/>/y", "h/a/x/v", "/", "m", "h/a/x/v1/b"),
    ("h/*/**/>", "h/a/x/v1/", "", "", "h/s/q1/v1/o/c"),
    ("h/*/>", "h/", "/", "x", "h/s/q1"),
    ("h/a/x,y/>", "h/a/", "/v", "1", "h/a/y/v2"),
]


def x_obligations(tier):
    o = []
    T = 170 if tier == "quick" else 600
    n = 1 if tier == "quick" else 2
    for i, (s, pre, mid, tail, fixed) in enumerate(LISTS):
        env = {"VF_SEARCH": s, "VF_PRE": pre, "VF_MID": mid, "VF_TAIL": tail, "VF_FIXED": fixed, "VF_N": str(n)}
        b = f"search {s!r}; entries {pre!r}+a+{mid!r}+{tail!r}, {pre!r}+c+{mid!r}+d{', ' + fixed if fixed else ''}; every a, c, d (no '/') with len<={n}"
        if tier == "thorough" or i in (0, 2, 4, 8, 9):
            o.append(Obl(f"C09-list[{s},{pre!r}]", M, "list_last", env=env, timeout=T, path_timeout=200, family="C09-list", bound=b))
        if tier == "thorough" or i in (1,):
            o.append(Obl(f"C09-all[{s},{pre!r}]", M, "all_last", env=env, timeout=T, path_timeout=200, family="C09-all", bound=b + "; FindInAll over a type-aware stub source"))
    for (search, pre, idx) in [("h/a/>/*", "h/a/", 2), ("h/s/q1/>/*", "h/s/q1/", 3), ("h/>/x", "h/", 1)]:
        o.append(Obl(f"C09-kernel[{search}]", M, "kernel", env={"VF_SEARCH": search, "VF_PRE": pre, "VF_INDEX": str(idx), "VF_N": "0" if tier == "quick" else "1"}, timeout=T, family="C09-kernel",
                     bound="sorted_search over a stubbed star_search yielding three arbitrary entries with two-segment tails"))
    for (fixed, key, pre, mid, tail) in [("h/a/x/v1/m", "version", "h/a/x/v", "/", "m"), ("h/a/x", "n", "h/a/", "", ""), ("h/s/q1/v1", "version", "h/s/q1/v", "", ""),
                                         ("h/a/x", "version", "h/a/x/v", "", ""), ("h/s/q1", "ext", "h/s/q1/v1/", "", ""),
                                         ("h/a/x/v1/b", "version", "h/a/x/v", "/", "m")]:      # the last: no existing entry carries the Sid's own extension -> empty Sid, nothing made up      # the last two: a key BELOW the Sid's own last field
        o.append(Obl(f"C09-get_last[{fixed},{key}]", M, "get_last", env={"VF_FIXED": fixed, "VF_KEY": key, "VF_PRE": pre, "VF_MID": mid, "VF_TAIL": tail, "VF_N": "1",
                                                                        "VF_EXTRA": "h/a/x/v2;h/a/x/v3" if fixed == "h/a/x/v1/b" else ""}, timeout=T, family="C09-get_last",
                     bound=f"Sid({fixed!r}).get_last({key!r}) over two symbolic siblings"))
    for (search, pre, mid, tail, tail2) in [("h/s/q1/>/*", "h/s/q1/v", "/", "m", "c"), ("h/a/x/>/*", "h/a/x/v", "/", "g", "b")]:
        o.append(Obl(f"C09-all-typed[{search}]", M, "all_last_typed", env={"VF_SEARCH": search, "VF_PRE": pre, "VF_MID": mid, "VF_TAIL": tail, "VF_TAIL2": tail2, "VF_N": "1"}, timeout=T, path_timeout=200,
                     family="C09-all", bound="FindInAll over a type-aware stub source; two entries of sibling types with symbolic version characters"))
    for (fixed, key, pre, mid, tail) in [("h/a/x/v1/m", "version", "h/a/x/v", "/", "m"), ("h/s/q1/v1", "version", "h/s/q1/v", "", "")]:
        o.append(Obl(f"C09-get_last-after-change[{fixed},{key}]", M, "get_last_after_change", env={"VF_FIXED": fixed, "VF_KEY": key, "VF_PRE": pre, "VF_MID": mid, "VF_TAIL": tail, "VF_N": "0", "VF_CACHES": "1"}, timeout=T, family="C09-get_last", expect="find",
                     bound="get_last; a sibling is added; get_last again -- spil's caches ON (keys are realised: bug-hunt, exhaustion not expected)"))
    for s_ in ["h/a/x/>", "h/a/*/>/y", "h/s/q1/>/*"]:
        o.append(Obl(f"C09-list-twice[{s_}]", M, "list_twice", env={"VF_SEARCH": s_, "VF_CACHES": "1"}, timeout=T, family="C09-list", bound="the same '>' search asked twice of a list Finder, then of another one (spil's caches ON): same answer"))
    o.append(Obl("C09-reach", M, "reach", env={"VF_SEARCH": "h/a/*/>", "VF_PRE": "h/a/", "VF_MID": "/v", "VF_N": "1"}, timeout=150, expect="refute", family="C09-twin"))
    return o


def z_obligations(tier):
    return [dict(name="C09-conf-finder-instances[shipped]", module="tplz3.misc", func="finder_instances", args={"conf": "shipped"}, timeout=120, family="C09-conf")]


META = {
    "functions": ["spil.sid.read.finders.find_glob.FindByGlob.do_find/sorted_search", "spil.sid.read.finders.find_list.FindInList.star_search", "spil.sid.read.finders.find_all.FindInAll.find",
                  "spil.sid.sid.DataSid.get_last", "spil_hamlet_conf.spil_data_conf.get_finder_for (instance identity, concrete check)"],
    "assumptions": ["FindInAll / get_last run over a type-aware list source handed out by a stubbed find_all.get_finder (the file system is C11's business)",
                    "searches are enumerated; '>' at one position in all unfolded forms (as the statement requires)"],
    "stubs": ["find_all.get_finder -> TypedList stub"],
}
