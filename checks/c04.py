from xhair.runner import Obl

M = "xhair.obl.c04"
KEYS = ["p", "t", "n", "q", "version", "o", "ext", "zz", "sid"]
BASES_QUICK = ["h/a/x", "h/s/q1/v1", "h/*/*", "h/s/q1/v1/m", "h"]
BASES_THOROUGH = BASES_QUICK + ["h/a", "h/a/x/v1/g", "a__g:h/a/x/v1/*", "h/s/q1/v1/o", "h/s/q1/v1/o/c", "*/*", "h/s/*/>/*", "h/a/x/v1"]


def x_obligations(tier):
    o = []
    T = 170 if tier == "quick" else 600
    bases = BASES_QUICK if tier == "quick" else BASES_THOROUGH
    n1 = 2 if tier == "quick" else 3
    for bi, base in enumerate(bases):
        for ki, k in enumerate(KEYS):
            if tier == "quick" and (ki + bi) % 3 != 0 and k not in ("version", "ext"):
                continue
            for entry in (["string", "get_with"] if (ki + bi) % 2 == 0 else ["string"]):
                o.append(Obl(f"C04-apply1[{base},{k},{entry},len<={n1}]", M, "apply1", env={"VF_BASE": base, "VF_KI": str(ki), "VF_N": str(n1), "VF_ENTRY": entry},
                             timeout=T, family="C04-apply", bound=f"base {base}, key {k}, every value v, 1<=len(v)<={n1}, no URL metacharacters / whitespace"))
    pairs = [(4, 6), (2, 4), (1, 3), (6, 7), (0, 1)] if tier == "quick" else [(a, b) for a in range(8) for b in range(8) if a != b and (a + 3 * b) % 5 == 1]
    for base in bases[:3] if tier == "quick" else bases[:6]:
        for (a, b) in pairs:
            o.append(Obl(f"C04-apply2[{base},{KEYS[a]}&{KEYS[b]},len<=1]", M, "apply2", env={"VF_BASE": base, "VF_KI": str(a), "VF_KI2": str(b), "VF_N": "1"}, timeout=T,
                         family="C04-apply", bound=f"base {base}, keys {KEYS[a]},{KEYS[b]}, values of length 1"))
    # deeper keys added in another order than the template's (1 to 3 pairs)
    rev = [("h", "", 2, 1, 1), ("h/a", "version=v1&", 2, None, 1), ("h", "version=v1&q=q1&", 1, None, 1)]
    if tier == "thorough":
        rev += [("h", "version=v1&", 3, 1, 2), ("h/a", "ext=m&o=g&", 4, 2, 2), ("h/s", "o=g&", 4, 3, 2), ("h", "q=q1&", 4, 1, 2), ("*", "", 2, 1, 1)]
    for base, qpre, a, b, n in rev:
        envv = {"VF_BASE": base, "VF_QPRE": qpre, "VF_KI": str(a), "VF_N": str(n)}
        if b is not None:
            envv["VF_KI2"] = str(b)
        for entry in ("string", "get_with"):
            o.append(Obl(f"C04-apply-unordered[{base}?{qpre}{KEYS[a]}{'&' + KEYS[b] if b is not None else ''},{entry},len<={n}]", M, "apply2" if b is not None else "apply1",
                         env=dict(envv, VF_ENTRY=entry), timeout=T, family="C04-apply", bound=f"base {base}, query {qpre!r} + symbolic values (len <= {n}) for keys given in non-template order"))
    # a forced type that is not the first of its same-keyed family: an overlay that several types fit keeps the Sid's own type
    if tier == "quick":
        for base, ki in [("a__g:h/a/x/v1/*", 4), ("a__g:h/a/x/v1/*", 6), ("s__c:h/s/q1/v1/*", 3)]:
            for entry in ("string", "get_with"):
                o.append(Obl(f"C04-apply1[{base},{KEYS[ki]},{entry},len<=2]", M, "apply1", env={"VF_BASE": base, "VF_KI": str(ki), "VF_N": "2", "VF_ENTRY": entry}, timeout=T, family="C04-apply",
                             bound=f"base {base} (forced, non-first type), key {KEYS[ki]}, every value of 1..2 characters"))
    # a plain (non-uri) string with a query whose value may contain ':'
    for base, ki in [("h/a", 2), ("h/s/q1/v1", 5), ("h", 7)]:
        o.append(Obl(f"C04-apply-plain[{base},{KEYS[ki]},len<=2]", M, "apply1", env={"VF_BASE": base, "VF_KI": str(ki), "VF_N": "2", "VF_ENTRY": "plain"}, timeout=T, family="C04-apply",
                     bound=f"Sid({base!r} + '?' + {KEYS[ki]}=v), every v of 1..2 characters, ':' included"))
    # the query syntax's own variants: '?' as pair separator, leading / trailing '?' or '&'
    syn = [("h/a/x", 4, 6, "?", "", ""), ("h/s/q1/v1", 4, 7, "?", "?", ""), ("h/a/x", 4, None, "&", "?", ""), ("h/*/*", 2, None, "&", "&", "?"), ("h/s/q1/v1", 6, None, "&", "", "&")]
    for base, a, b, sep, lead, trail in syn:
        envv = {"VF_BASE": base, "VF_KI": str(a), "VF_N": "1" if b is not None else "2", "VF_SEP": sep, "VF_QLEAD": lead, "VF_QTRAIL": trail}
        if b is not None:
            envv["VF_KI2"] = str(b)
        for entry in ("string", "get_with"):
            o.append(Obl(f"C04-apply-syntax[{base},{lead}{KEYS[a]}{sep + KEYS[b] if b is not None else ''}{trail},{entry}]", M, "apply2" if b is not None else "apply1", env=dict(envv, VF_ENTRY=entry), timeout=T,
                         family="C04-apply", bound=f"base {base}, query {lead!r} + pairs joined by {sep!r} + {trail!r}, symbolic values"))
    for base in bases[:3]:
        for ki in (2, 4, 7):
            o.append(Obl(f"C04-anyvalue[{base},{KEYS[ki]}]", M, "blank", env={"VF_BASE": base, "VF_KI": str(ki), "VF_N": "1" if tier == "quick" else "2"}, timeout=T, family="C04-total",
                         bound="every value incl. blank / metacharacters: must not raise"))
    for base in bases:
        for ki, k in enumerate(KEYS[:8]):
            if tier == "quick" and (ki + len(base)) % 2:
                continue
            o.append(Obl(f"C04-kw[{base},{k}]", M, "kw", env={"VF_BASE": base, "VF_KI": str(ki), "VF_N": str(n1)}, timeout=T, family="C04-kw",
                         bound=f"get_with(key={k}, value=v or None), every v with len<={n1}"))
    for (a, b) in [(0, 2), (2, 2), (7, 0)]:
        o.append(Obl(f"C04-update[{KEYS[a]},{KEYS[b]}]", M, "update_kernel", env={"VF_KI": str(a), "VF_KI2": str(b), "VF_N": "1" if tier == "quick" else "2"}, timeout=T, family="C04-update"))
    o.append(Obl("C04-reach", M, "reach", env={"VF_KI": "4", "VF_N": "2"}, timeout=150, expect="refute", family="C04-twin"))
    return o


META = {
    "functions": ["spil.sid.core.query_helper.update/apply_query/to_dict", "spil.sid.sid.TypedSid.get_with", "spil.sid.core.sid_factory.sid_to_sid/dict_to_sid",
                  "spil.sid.core.sid_resolver.dict_to_type/dict_to_sid/sid_to_dict", "urllib.parse.parse_qsl/urlsplit"],
    "assumptions": ["query values: non-empty, no URL metacharacters or whitespace, '~' only as first character (DESIGN section 3)",
                    "query keys are drawn from a finite pool (all configured keys + two foreign names): dictionary keys are hashed, which CrossHair realises"],
}
