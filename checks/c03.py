from xhair.runner import Obl
from checks.common import per_part

M = "xhair.obl.c03"


def x_obligations(tier):
    o = []
    for ki in range(6):
        only = None
        if tier == "quick":
            only = {0: ["", "h/s/q1/v1/o/"], 1: ["h/a/", "h/s/q1/v1/"], 2: ["h/a/x/", "h/s/q1/v1/o/", "SUF"], 3: ["h/a/x/v1/", "h/s/q1/v1/", "SUF"], 4: ["h/s/q1/v1/o/", "h/a/x/v1/", "SUF"], 5: ["h/s/q1/v1/o/", "SUF"]}[ki]
        o += per_part("C03", f"C03-get_as", M, "get_as", tier, extra_env={"VF_KI": str(ki)}, only=only)
    o += per_part("C03", "C03-parent", M, "parent", tier)
    o += per_part("C03", "C03-walk", M, "walk", tier, only=None if tier == "thorough" else ["", "h/a/x/v1/", "h/s/q1/v1/o/"])
    o += per_part("C03", "C03-untyped", M, "untyped", tier, only=None if tier == "thorough" else ["", "h/a/x/", "h/s/q1/v1/"])
    o += per_part("C03", "C03-missing", M, "missing_key", tier, only=["", "h/a/"], shrink=1)
    # typed Sids obtained by a query that adds deeper keys in another order than the template's
    from checks.c02 import QBUILT, QBUILT_T
    for pre, n, suf in QBUILT if tier == "quick" else QBUILT + QBUILT_T:
        for fn in ("parent", "walk"):
            o.append(Obl(f"C03-{fn}[query-built,{pre!r}+{n}+{suf!r}]", M, fn, env={"VF_PRE": pre, "VF_N": str(n), "VF_SUF": suf}, timeout=170 if tier == "quick" else 600,
                         family="C03-" + fn, bound=f"Sid({pre!r} + t + {suf!r}), every t with len(t) <= {n} without '?' and ':'"))
    # the shipped configuration, skeletons with one symbolic character
    ship = [("hamlet/a/char/", 1, ""), ("hamlet/s/sq01", 1, "/sh0010"), ("hamlet/a/char/x/model/v00", 1, "/w/ma"), ("hamlet/", 1, ""),
            ("hamlet/s/sq010/sh0010/anim/v001/w/m", 1, "")]      # a shot file WITHOUT the optional 'node' level: its keys skip one of the configured key order
    for pre, n, suf in ship:
        for fn in ("parent", "walk"):
            o.append(Obl(f"C03-{fn}[shipped,{pre!r}+{n}+{suf!r}]", M, fn, env={"VF_CONF": "shipped", "VF_PRE": pre, "VF_N": str(n), "VF_SUF": suf}, timeout=170 if tier == "quick" else 600, path_timeout=200,
                         family="C03-shipped", bound=f"shipped configuration: Sid({pre!r}+c+{suf!r}), c one symbolic character"))
    # typed Sids obtained from a PATH whose template names the fields in another order than the Sid's (shipped node files, miniB sounds)
    for conf, cfg, pre, n, suf in [("shipped", "local", "hamlet/s/sq010/sh0010/fx/v001/p/smoke/vd", 1, ""), ("miniB", "main", "m/c/r1/01/p/", 1, "")]:
        o.append(Obl(f"C03-from-path[{conf},{pre!r}+{n}+{suf!r}]", "xhair.obl.c05", "roundtrip", env={"VF_CONF": conf, "VF_CONFIG": cfg, "VF_PRE": pre, "VF_N": str(n), "VF_SUF": suf},
                     timeout=170 if tier == "quick" else 600, path_timeout=300, family="C03-from-path",
                     bound=f"{conf}: Sid(path=Sid({pre!r}+c+{suf!r}).path()) has the same fields in the same order, the same keytype and parent"))
    # a configuration with an explicitly declared intermediate level inside an extrapolated chain (miniB): the walk crosses it
    for pre, n, suf in [("m/p/x/it/01/s/", 1, ""), ("m/p/x/", 1, "/01/p/i")]:
        o.append(Obl(f"C03-walk[miniB,{pre!r}+{n}+{suf!r}]", M, "walk", env={"VF_CONF": "miniB", "VF_PRE": pre, "VF_N": str(n), "VF_SUF": suf}, timeout=170 if tier == "quick" else 600,
                     family="C03-walk", bound=f"miniB: Sid({pre!r}+t+{suf!r}), every t with len(t) <= {n}"))
    # navigation answers the same after a caller edited a returned fields dictionary or removed a key with get_with(k=None) (C13's call alphabet, caches on)
    for i in (29, 34):
        o.append(Obl(f"C03-history[after call#{i}]", "xhair.obl.c13", "pair", env={"VF_IDX": str(i), "VF_FIRST": "local"}, timeout=170 if tier == "quick" else 600, family="C03-history",
                     bound=f"history (call #{i}: fields-dictionary edit / get_with(ext=None), call j) for every j of the call alphabet of C13, caches on"))
    # typed Sids that keep a refused query (possibly containing '/') in their string: len / keytype / basetype still count fields
    for pre, n, suf in [("h/a/x?", 2, ""), ("h/a/x?q=", 1, "/b"), ("h/s/q1/v1?q=b", 1, "c/")]:
        o.append(Obl(f"C03-refused-query[{pre!r}+{n}+{suf!r}]", M, "refused_query", env={"VF_PRE": pre, "VF_N": str(n if tier == "quick" else n + 1), "VF_SUF": suf}, timeout=170 if tier == "quick" else 600,
                     family="C03-refused-query", bound=f"Sid({pre!r} + t + {suf!r}), every t with len(t) <= {n if tier == 'quick' else n + 1} without ':'"))
    o.append(Obl("C03-reach", M, "reach", env={"VF_N": "3", "VF_PRE": "h/a/"}, timeout=150, expect="refute", family="C03-twin"))
    return o


def z_obligations(tier):
    return [dict(name=f"C03-prefix[{c}]", module="tplz3.c01z", func="prefix", args={"conf": c}, timeout=300, family="C03-prefix") for c in (("shipped",) if tier == "quick" else ("shipped", "miniA", "miniB"))]


META = {
    "functions": ["spil.sid.sid.TypedSid.get_as/parent/keytype/basetype/__len__/get/get_with/is_leaf", "spil.sid.sid.StringSid.__truediv__",
                  "spil.sid.core.sid_factory.dict_to_sid/sid_to_sid", "spil.sid.core.sid_resolver.*"],
    "assumptions": ["parent / last == sid is asserted for naturally (first-match) typed Sids only"],
}
