"""What is claimed in MANIFEST.json (tools/gen_manifest.py reads this)."""

_X = ("bounded symbolic execution (CrossHair + z3) of the real spil functions: for each obligation the solver exhausts every "
      "path for every input inside the stated bound (all code points), or returns a counterexample that is replayed natively")
_NOTE = ("trusted: CrossHair's models of str/list/dict/re with the corrections E1-E7 (differentially validated each run), z3, the "
         "reference oracles under /verif/oracles, the miniature configuration standing in for the shipped one in engine X; "
         "claims are bounded (string lengths, skeletons) and hold for the configuration named in each obligation")

CLAIMS = {
    "C01": dict(z=True, text=_X + "; plus z3 regular-language equivalence of every live template regex of the shipped configuration with a per-segment oracle and first-match order witnesses.",
                note=_NOTE, technique="symbolic execution of Sid()/sid_to_sid/sid_to_dict (CrossHair+z3) against a reference typer; z3 regex language equivalence on the shipped templates"),
}

NOT_APPLICABLE = {}
