"""What is claimed in MANIFEST.json (tools/gen_manifest.py reads this)."""

_X = ("bounded symbolic execution (CrossHair + z3) of the real spil functions: for each obligation the solver exhausts every "
      "path for every input inside the stated bound (all code points), or returns a counterexample that is replayed natively")
_NOTE = ("trusted: CrossHair's models of str/list/dict/re with the corrections E1-E7 (differentially validated each run), z3, the "
         "reference oracles under /verif/oracles, the miniature configuration standing in for the shipped one in engine X; "
         "claims are bounded (string lengths, skeletons) and hold for the configuration named in each obligation")

CLAIMS = {
    "C01": dict(z=True, text=_X + "; plus z3 regular-language equivalence of every live template regex of the shipped configuration with a per-segment oracle and first-match order witnesses.",
                note=_NOTE, technique="symbolic execution of Sid()/sid_to_sid/sid_to_dict (CrossHair+z3) against a reference typer; z3 regex language equivalence on the shipped templates"),
    "C02": dict(text=_X + ". Round trips through uri / copy / permuted field dictionaries / query string and the equality law are asserted on the real Sid objects for every string in each prefix partition.",
                note=_NOTE, technique="symbolic execution of Sid(uri)/Sid(fields=)/Sid(query=)/__eq__/__repr__ (CrossHair+z3), all strings per partition"),
    "C03": dict(text=_X + ". get_as for every key index, parent, '/', len/keytype/basetype and the untyped fallbacks are asserted for every string in each prefix partition.",
                note=_NOTE, technique="symbolic execution of get_as/parent/__truediv__ (CrossHair+z3) against prefix laws"),
    "C04": dict(text=_X + ". The real apply_query/get_with run against an overlay + decision-table oracle for every value of 1-3 characters per (base Sid, key) pair; keys from a finite pool.",
                note=_NOTE, technique="symbolic execution of apply_query/update/get_with (CrossHair+z3) against an overlay/decision-table oracle"),
    "C19": dict(z=True, text=_X + ". extrapolate_templates / pattern_replacing are executed on a generated family of configurations (names from pools chosen by symbolic indices) against a reference; the live shipped table is compared with the reference applied to the raw module.",
                note=_NOTE, technique="symbolic execution of extrapolate_templates/pattern_replacing (CrossHair+z3) over a solver-enumerated configuration grammar; reference comparison of the live table"),
    "C13": dict(text=_X + ". The three real cache wrappers are executed on 3-call histories with mixed positional/keyword passing and forced eviction; the real cached entry points (path, Sid(path=), path_to_dict, unfold_search) on 2-call histories with caches on. Domains are finite (hashing realises), so the solver enumerates histories.",
                note=_NOTE, technique="symbolic execution (CrossHair+z3) of the cache wrappers and cached entry points on solver-enumerated 2-3 call histories, compared with the unwrapped functions"),
    "C07": dict(text=_X + ". The real unfold_search is run on search skeletons with symbolic tokens against a reference unfolder written from the statement (aliases, ',' distribution, '**' completion to leaf types, narrowing, trailing query as filter); the only-SpilException clause on fully symbolic short strings with log calls kept.",
                note=_NOTE, technique="symbolic execution of unfold_search and its unfolders (CrossHair+z3) against a reference unfolder, skeletons with symbolic tokens"),
    "C05": dict(z=True, text=_X + ". Round trip, purity, root/tail relation between the two configurations and injectivity on the real path()/Sid(path=) code for symbolic field values, with either configuration loaded first; z3 proves for the shipped templates: mappings one-to-one, templates pairwise disjoint on concrete paths, file-name boundaries deterministic, configurations differing only by root.",
                note=_NOTE, technique="symbolic execution of dict_to_path/path_to_dict/path_to_sid (CrossHair+z3); z3 regular-language disjointness / determinism queries on the shipped path templates"),
    "C06": dict(z=True, text=_X + ". Sid(path=root+x) for every short string x after each template prefix, both configurations and switched roots: never raises, typed implies path(c) == input; desynchronised repeated fields and changed separators through independent holes.",
                note=_NOTE, technique="symbolic execution of Sid(path=...) / path_to_dict / dict_to_path (CrossHair+z3) on path skeletons with symbolic holes"),
    "C14": dict(text=_X + ". Equality vs uri for natural and forced types, Sid==str, ordering by string, hash/set behaviour on a pool, and state snapshots before/after every public operation group with mutation of every returned container.",
                note=_NOTE, technique="symbolic execution of __eq__/__lt__/fields/get_with/get_as/parent/... (CrossHair+z3) with state snapshots"),
    "C08": dict(z=True, text=_X + ". The real FindInList.find / Sid.match run on lists of one or two fully symbolic entries for an enumerated set of searches, against a segment-wise glob reference over the reference unfolding; z3 proves the regex returned by the real glob2re equivalent to the reference glob language for every pattern up to length 3-4 over a 14-letter alphabet of metacharacters.",
                note=_NOTE, technique="symbolic execution of FindInList.find/star_search/Sid.match (CrossHair+z3) with symbolic list entries; z3 regex language equivalence for glob2re"),
    "C09": dict(z=True, text=_X + ". The real sorted_search / FindInList / FindInAll / get_last run on lists with symbolic entries for enumerated '>' searches against a group-by-prefix / segment-wise-greatest reference; FindInAll over a type-aware stub source; a data-change sequence for get_last; concrete check that the shipped data configuration hands the same Finder instance to sibling types.",
                note=_NOTE, technique="symbolic execution of sorted_search/FindInAll.find/get_last (CrossHair+z3) with symbolic list entries against a segment-wise reference"),
    "C10": dict(text=_X + ". The rewrite rules are checked as relations between two or more runs of the real code: at the unfold level with symbolic tokens, and on FindInList result sets with symbolic entries for enumerated (search, derived search) pairs.",
                note=_NOTE, technique="symbolic execution (CrossHair+z3) of pairs of real searches related by the rewrite rules (metamorphic relations, inputs symbolic)"),
    "C12": dict(text=_X + ". Finder.find/find_one/exists laws over a do_find stub yielding arbitrary symbolic strings; Sid.exists/children/siblings/leaf rule over a symbolic universe behind FindInAll (type-aware list source).",
                note=_NOTE, technique="symbolic execution of Finder.find_one/exists and DataSid.exists/children/siblings (CrossHair+z3) over stubbed sources with symbolic content"),
    "C11": dict(text=_X + ". The real FindInPaths (local and server) and FindInAll run against a model of the file system (glob.glob answered from an explicit universe built through the real path(c) from Sids with a symbolic name character, plus concrete and symbolic junk paths) and are compared with the search's denotation over the same entities.",
                note=_NOTE + "; the operating system is a stated model (xhair/globstub.py)", technique="symbolic execution of FindInPaths.star_search_simple/FindInAll.find/FindInConstants (CrossHair+z3) over a glob stub with symbolic universe"),
    "C18": dict(text=_X + ". get_next / get_last / get_new (the repository's NextGetter plugin routed through GetFromAll and the data configuration) on version skeletons with symbolic digits under miniA and the shipped configuration; existing versions served by a type-aware list source; a publish step.",
                note=_NOTE, technique="symbolic execution of get_next/get_last/get_new and NextGetter.get_attr (CrossHair+z3), symbolic version digits, enumerated leading digits"),
    "C15": dict(text=_X + ". The real writer / getter run over an in-memory file-system model with the real json module: one inductive step from an arbitrary pre-state per operation and Sid, two-entity sequences for interference, side-car location with real pathlib. Inputs are finite pools chosen by symbolic indices, so the solver enumerates them (weakest fit of the technique; stated in the evidence).",
                note=_NOTE + "; the operating system is a stated model (xhair/memfs.py)", technique="symbolic execution of WriteToPaths.create/update/set and GetFromPaths.get_data (CrossHair+z3) over an in-memory file-system model, solver-enumerated pre-states and data"),
    "C16": dict(text=_X + ". The real GetFromPaths.get / GetFromAll.get run over the in-memory file-system and glob models and are compared record by record with what the real FindInPaths / FindInAll find, for enumerated searches and solver-chosen attribute lists / sid encoders, two calls in a row.",
                note=_NOTE + "; the operating system is a stated model (xhair/memfs.py, xhair/globstub.py)", technique="symbolic execution of GetByFinder.get/GetFromAll.get/GetFromPaths.get_data (CrossHair+z3) over in-memory models, solver-enumerated arguments"),
}

NOT_APPLICABLE = {}
