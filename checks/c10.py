from xhair.runner import Obl

M = "xhair.obl.c10"


def x_obligations(tier):
    o = []
    T = 170 if tier == "quick" else 600
    n = 1 if tier == "quick" else 2
    commas = [("h/", "", "s"), ("h/a/x?version=", "", "v1")] if tier == "quick" else [("h/", "", "s"), ("h/a/x?version=", "", "v1"), ("h/a/x/v1/", "", "g"), ("h/s/q1/", "/**", "q2"), ("h/*/**?ext=", "", "c"), ("h/s/q1/v1/", "/c", "o"), ("h/s/", "/v1", "*")]
    for pre, suf, alt in commas:
        o.append(Obl(f"C10-comma[{pre!r}+t,{alt}+{suf!r}]", M, "comma", env={"VF_PRE": pre, "VF_SUF": suf, "VF_ALT": alt, "VF_N": str(n)}, timeout=T, path_timeout=200, family="C10-unfold",
                     bound=f"token t with len<={n}, concrete alternative {alt!r}"))
    # lists written with a blank after the comma ('maya, mov'), the symbolic member (possibly an alias) not in first position
    for pre, alt, join in [("h/a/x/v1/", "g", ", "), ("h/s/**/", "m", ", "), ("h/a/x/*?ext=", "g", ", "), ("h/a/x/v1/", "g", ",")]:
        o.append(Obl(f"C10-comma-last[{pre!r}+{alt}{join!r}t]", M, "comma_last", env={"VF_PRE": pre, "VF_ALT": alt, "VF_JOIN": join, "VF_N": "1"}, timeout=T, path_timeout=200, family="C10-unfold",
                     bound=f"{pre!r} + {alt!r} + {join!r} + t, token t with len<=1 (an alias or a member)"))
    (s_, epre_, esuf_, fixed_, junk_, jpre_, jsuf_) = ("h/a/x,*", "h/a/", "", "h/a/x;h/a/y/v1", "@/H/A/x/vv", "/H/A/x/v1/x_v1.", "QQ")
    o.append(Obl(f"C10-paths[{s_}]", "xhair.obl.c11", "paths_agree", env={"VF_SEARCH": s_, "VF_EPRE": epre_, "VF_ESUF": esuf_, "VF_FIXED": fixed_, "VF_JUNK": junk_, "VF_JPRE": jpre_, "VF_JSUF": jsuf_},
                 timeout=T, path_timeout=200, family="C10-paths", bound="FindInPaths (glob model) on an or-list whose alternatives overlap: no duplicates, same answer as the list search"))
    aliases = [] if tier == "quick" else [("h/a/", "/v1/y", "/v1/m;/v1/b"), ("h/s/q1/", "/z", "/c;/j"), ("h/", "/**/y", "/**/m;/**/b"), ("h/s/", "/**?ext=z", "/**?ext=c;/**?ext=j")]
    for pre, suf, der in aliases:
        o.append(Obl(f"C10-alias[{pre!r}+t+{suf!r}]", M, "alias", env={"VF_PRE": pre, "VF_SUF": suf, "VF_DERIVED": der, "VF_N": str(n)}, timeout=T, path_timeout=200, family="C10-unfold", bound=f"token t with len<={n}"))
    stars = [] if tier == "quick" else [("h/", "", 4), ("h/a/", "", 3), ("h/s/q1/", "", 3), ("h/s/q1/v1/", "", 2), ("h/s/", "/c", 3), ("h/a/x/", "", 2), ("", "", 5), ("h/a/", "/m", 3)]
    for pre, suf, lev in stars:
        o.append(Obl(f"C10-doublestar[{pre!r}+t+'/**'+{suf!r}]", M, "doublestar", env={"VF_PRE": pre, "VF_SUF": suf, "VF_N": str(n), "VF_MAXLEV": str(lev)}, timeout=T, path_timeout=300, family="C10-unfold", bound=f"token t with len<={n}; '/*' levels 0..{lev}"))
    unions = [("h/s,a/*", "h/s/*;h/a/*", "h/", ""), ("h/a/x/v1/y", "h/a/x/v1/m;h/a/x/v1/b", "h/a/x/v1/", ""), ("h/a/**", "h/a/*/*/*", "h/a/x/v1", ""),
              ("h/s/q1/v1/**", "h/s/q1/v1/*;h/s/q1/v1/*/*", "h/s/q1/v1", ""), ("h/a/x/*?ext=y", "h/a/x/*?ext=m;h/a/x/*?ext=b", "h/a/x/v1/", ""),
              ("h/s/q1/v1/**/c", "h/s/q1/v1/c;h/s/q1/v1/*/c", "h/s/q1/v1/", ""), ("h/a/x/v1/m/**", "h/a/x/v1/m", "h/a/x/v1/", ""),
              ("h/a/*/v1,v2", "h/a/*/v1;h/a/*/v2", "h/a/x/v", "")]
    unions += [("h/a/x,y", "h/a/x;h/a/y", "h/a/", ""), ("h/a/x,y/v1", "h/a/x/v1;h/a/y/v1", "h/a/", "")]      # an or-list inside a free value, every other segment literal
    unions += [("h/s/**/o/c", "h/s/*/*/o/c", "h/s/q1/v1/o/", ""), ("h/**/v1/o/c", "h/*/*/v1/o/c", "h/s/q1/v1/o/", "")]      # '**' followed by two or three segments
    for s, der, epre, leaf in unions:
        o.append(Obl(f"C10-list-union[{s}]", M, "list_union", env={"VF_SEARCH": s, "VF_DERIVED": der, "VF_EPRE": epre, "VF_LEAF": leaf, "VF_N": "2" if tier == "quick" else "3"}, timeout=T, path_timeout=200, family="C10-list",
                     bound=f"list = [{epre!r}+a, {epre!r}+b], every a, b"))
    filters = [("h/a/*", "h/a/*?n=x", "n", "x", "h/a/"), ("h/a/*/*", "h/a/*/*?version=v1", "version", "v1", "h/a/x/"), ("h/*/*", "h/s/*", "t", "s", "h/"), ("h/a/x/*/*", "h/a/x/*/m", "ext", "m", "h/a/x/v1/"),
               ("h/s/q1/**", "h/s/q1/**?version=v2", "version", "v2", "h/s/q1/v")]
    for s, d, k, v, epre in filters:
        o.append(Obl(f"C10-list-filter[{s} -> {d}]", M, "list_filter", env={"VF_SEARCH": s, "VF_DERIVED": d, "VF_KEY": k, "VF_VAL": v, "VF_EPRE": epre, "VF_N": "1" if tier == "quick" else "2"}, timeout=T, path_timeout=200, family="C10-list",
                     bound=f"list = [{epre!r}+a, {epre!r}+b], every a, b"))
    ufs = [("h/s/", "/**", "ext", "y"), ("h/", "/**", "ext", "m,c"), ("h/*/", "", "t", "s")]
    if tier == "thorough":
        ufs += [("h/s/q1/", "/*", "ext", "z"), ("h/a/", "/**", "version", "v1,v2"), ("h/", "/**", "n", "x"), ("h/s/q1/v1/", "", "ext", "y"), ("h/*/**/", "", "ext", "y")]
    for pre, suf, k, v in ufs:
        o.append(Obl(f"C10-unfold-filter[{pre!r}+t+{suf!r}?{k}={v}]", M, "unfold_filter", env={"VF_PRE": pre, "VF_SUF": suf, "VF_KEY": k, "VF_VAL": v, "VF_N": "1"}, timeout=T, path_timeout=300, family="C10-unfold",
                     bound=f"search {pre!r}+t+{suf!r} with the filter {k}={v}; token t one symbolic character"))
    o.append(Obl("C10-reach", M, "reach", env={"VF_PRE": "h/", "VF_N": "1"}, timeout=150, expect="refute", family="C10-twin"))
    return o


def z_obligations(tier):
    # the list search under every relation of this property is FindInList's glob -> regex translation: z3 equivalence with the reference glob language
    n = 3 if tier == "quick" else 4
    return [dict(name=f"C10-glob[len<={n}]", module="tplz3.c08z", func="glob", args={"maxlen": n}, timeout=1500, family="C10-glob")]


META = {
    "functions": ["spil.sid.read.tools.unfold_search", "spil.sid.read.unfolders.or_op/extensions/expand/typed_narrow", "spil.sid.core.utils.expand", "spil.sid.core.query_helper.apply_query",
                  "spil.sid.read.finders.find_list.FindInList.star_search", "spil.sid.read.finder.Finder.find"],
    "assumptions": ["relations are checked at the unfold level with symbolic tokens and on FindInList with symbolic entries for enumerated (search, derived search) pairs",
                    "FindInPaths / FindInAll inherit the relations through find = do_find(unfold_search(s)) (C12) and the glob-stub comparison of C11"],
}
