from xhair.runner import Obl

M = "xhair.obl.c12"


def x_obligations(tier):
    o = []
    T = 170 if tier == "quick" else 600
    n = 1 if tier == "quick" else 2
    for pre in (["", "h/a/"] if tier == "quick" else ["", "h/a/", "h/s/q1/v1/"]):
        o.append(Obl(f"C12-finder[{pre!r}+{n}]", M, "finder_laws", env={"VF_PRE": pre, "VF_N": str(n), "VF_SEARCH": "h/*/*"}, timeout=T, family="C12-finder",
                     bound=f"do_find yields 0..3 entries, two of them {pre!r}+a, {pre!r}+b with 1<=len<={n} (arbitrary strings, possibly no Sids)"))
    for search in ["h/a/x/v1/y", "h/a/x/v1/m"]:
        o.append(Obl(f"C12-finder-sidobject[{search}]", M, "finder_sidobject", env={"VF_PRE": "h/a/x/v1/", "VF_N": "1", "VF_SEARCH": search}, timeout=T, family="C12-finder",
                     bound="as C12-finder, the search handed over as a typed non-search Sid object (one ending in an extension alias, one plain)"))
    for sid, epre, esuf, fixed in [("h/a/x", "h/a/", "", "h/a/x"), ("h/a/x", "h/a/x/v", "", "h/a/x/v1"), ("h/s/q1/v1/c", "h/s/q1/v1/", "", "h/s/q1/v1/c")]:
        o.append(Obl(f"C12-after-change[{sid},{epre!r}+a]", M, "sid_laws_after_change", env={"VF_SID": sid, "VF_EPRE": epre, "VF_ESUF": esuf, "VF_FIXED": fixed, "VF_N": "1", "VF_CACHES": "1"}, timeout=60 if tier == "quick" else T,
                     expect="find", family="C12-sid", bound="siblings / children / exists before and after an entity is created -- spil's caches ON (keys are realised: bug-hunt, exhaustion not expected)"))
    cases = [("h/a/x", "h/a/", "", "h/a/x/v1"), ("h/a/x", "h/a/x/", "", "h/a/x"), ("h/s/q1/v1", "h/s/q1/v", "", "h/s/q1/v1/c"), ("h/s/q1/v1/c", "h/s/q1/v1/", "/j", "h/s/q1/v1/c"),
             ("h/a/x/v1/m", "h/a/x/v1/", "", ""), ("h", "h/", "", "h/a"), ("h/s/q1/v1/o", "h/s/q1/v1/o/", "", "h/s/q1/v1/o")]
    for sid, epre, esuf, fixed in cases:
        o.append(Obl(f"C12-sid[{sid},{epre!r}+a+{esuf!r}]", M, "sid_laws", env={"VF_SID": sid, "VF_EPRE": epre, "VF_ESUF": esuf, "VF_FIXED": fixed, "VF_N": "1" if tier == "quick" else "2"}, timeout=T, path_timeout=200,
                     family="C12-sid", bound=f"universe [{epre!r}+a+{esuf!r}, {epre!r}+b{', ' + fixed if fixed else ''}] behind FindInAll; Sid {sid}"))
    # two types that search the same glob (miniB: pr__file / pr__doc): the file-system finder still answers like the list search
    (s_, epre_, esuf_, fixed_, junk_, jpre_, jsuf_) = ("m/p/x/it/01/s/*", "m/p/x/it/01/s/", "", "m/p/x/it/01/s/d;m/p/x/it/01/s/i;m/p/x/it/01/p/t", "@/M/PROPS/x/it/01/x-it-SAV.02.d", "", "")
    o.append(Obl(f"C12-paths[miniB,{s_}]", "xhair.obl.c11", "paths_agree", env={"VF_CONF": "miniB", "VF_SEARCH": s_, "VF_EPRE": epre_, "VF_ESUF": esuf_, "VF_FIXED": fixed_, "VF_JUNK": junk_, "VF_JPRE": jpre_, "VF_JSUF": jsuf_},
                 timeout=T, path_timeout=200, family="C12-paths", bound="miniB: search over two types sharing one glob pattern; three path configurations over the glob model"))
    (s2, epre2, esuf2, fixed2, junk2) = ("h/s/q1/v1/a,m", "h/s/q1/v1/", "", "h/s/q1/v1/m;h/s/q1/v1/c", "@/H/S/q1/v1/E/q1_v2.c")
    o.append(Obl(f"C12-paths[{s2}]", "xhair.obl.c11", "paths_agree", env={"VF_SEARCH": s2, "VF_EPRE": epre2, "VF_ESUF": esuf2, "VF_FIXED": fixed2, "VF_JUNK": junk2, "VF_JPRE": "", "VF_JSUF": ""},
                 timeout=T, path_timeout=200, family="C12-paths", bound="the file-system finder on an or-search whose first typed search has no path template: it still answers like the list search"))
    o.append(Obl("C12-order-repeat[caches on]", M, "order_repeat", env={"VF_CACHES": "1"}, timeout=T, family="C12-finder",
                 bound="6 searches (multi-type unfoldings, or-lists, a leaf) x 1..3 repetitions on one FindInAll, spil's caches ON: find_one / find / exists / as_sid forms agree every time"))
    for pre in ["h/a/x/v1/", "h/s/q1/v1/", "h/s/q1/v1/o/"]:
        o.append(Obl(f"C12-leaf[{pre!r}+{n}]", M, "leaf_no_call", env={"VF_PRE": pre, "VF_N": str(n)}, timeout=T, family="C12-sid", bound=f"every leaf Sid {pre!r}+a, len(a)<={n}"))
    o.append(Obl("C12-reach", M, "reach", env={"VF_SID": "h/a/x", "VF_EPRE": "h/a/x/", "VF_N": "2"}, timeout=150, expect="refute", family="C12-twin"))
    return o


META = {
    "functions": ["spil.sid.read.finder.Finder.find/find_one/exists", "spil.sid.read.util.first", "spil.sid.sid.DataSid.exists/children/siblings/siblings_as", "spil.sid.sid.TypedSid.is_leaf",
                  "spil.sid.read.finders.find_all.FindInAll.find"],
    "assumptions": ["a Finder yields non-empty strings", "Sid data calls run over a type-aware list source handed out by a stubbed find_all.get_finder (the file system is C11's / C15's business)"],
    "outside": ["'whatever exists has an existing parent' for the file system is covered by C15 (create makes all ancestors)"],
    "stubs": ["find_all.get_finder -> TypedList stub", "Finder.do_find -> list-yielding stub (finder laws)"],
}
