"""Reference for C04: overlay of a query on a field dictionary, and the decision table of query application."""
from __future__ import annotations

from typing import Dict, List, Optional, Tuple

from oracles import typing_ref

SEARCH_SYMBOLS = ["*", ",", ">", "<", "**"]


def parse_query(q: str) -> List[Tuple[str, str]]:
    """'a=b&c=d' -> [('a','b'),('c','d')].  Only for queries whose keys/values are free of URL metacharacters."""
    out = []
    for pair in q.replace("?", "&").split("&"):      # "all ? can be used as &"; leading / trailing separators are ignored
        if "=" not in pair:
            continue
        k, v = pair.split("=", 1)
        if v == "":
            continue        # blank values are dropped (reading rule, DESIGN section 3)
        out.append((k, v))
    return out


def overlay(fields: Dict[str, str], pairs: List[Tuple[str, str]]) -> Dict[str, str]:
    new = dict(fields)
    seen: Dict[str, str] = {}
    for k, v in pairs:
        seen[k] = v            # a repeated key: the last value wins (dictionary semantics of the query)
    for k, v in seen.items():
        if v.startswith("~"):
            if k in new:
                new[k] = v[1:]
        else:
            new[k] = v
    return new


def is_search(text: str) -> bool:
    return any(s in text for s in SEARCH_SYMBOLS)


def apply(string: str, type_: str, fields: Dict[str, str], query: str):
    """Returns (applied: bool, type, fields, string)."""
    new = overlay(fields, parse_query(query))
    types = typing_ref.type_fields(new)
    if not types:
        return False, type_, fields, string + "?" + query
    if len(types) == 1:
        t = types[0]
    elif type_ in types:
        t = type_
    elif is_search(string + "?" + query):
        t = types[0]
    else:
        return False, type_, fields, string + "?" + query
    keys = typing_ref.keys_of(t)
    ordered = {k: new[k] for k in keys}
    return True, t, ordered, "/".join(ordered[k] for k in keys)
