"""
Reference typer, written from the statement of C01 (independent of resolva):

  a plain string gets the type and fields of the FIRST configured template (configuration order, after
  extrapolation and pattern injection) that has as many placeholders as the string has '/'-separated
  segments and whose every placeholder pattern accepts its WHOLE segment.

The template text is taken from the live `spil.conf.sid_templates` (the output of the real loaders);
its parsing into (key, pattern) segments is done here, by hand.
"""
from __future__ import annotations

import re
from typing import Dict, List, Optional, Tuple

DEFAULT = "[^/]*"


def split_template(template: str) -> List[Tuple[str, str]]:
    """'{p:(h|\\*)}/{n}' -> [('p', '(h|\\*)'), ('n', '[^/]*')].  Sid templates are pure placeholder chains."""
    out = []
    depth = 0
    seg = ""
    segs = []
    for ch in template:
        if ch == "{":
            depth += 1
        elif ch == "}":
            depth -= 1
        if ch == "/" and depth == 0:
            segs.append(seg)
            seg = ""
        else:
            seg += ch
    segs.append(seg)
    for s in segs:
        if not (s.startswith("{") and s.endswith("}")):
            raise ValueError(f"segment is not a placeholder: {s!r}")
        body = s[1:-1]
        if ":" in body:
            key, expr = body.split(":", 1)
            expr = expr.replace("\\{", "{").replace("\\}", "}")
        else:
            key, expr = body, DEFAULT
        out.append((key, expr))
    return out


_cache: Dict[int, list] = {}


def templates() -> List[Tuple[str, List[Tuple[str, "re.Pattern"]]]]:
    from spil import conf

    key = id(conf.sid_templates)
    if key not in _cache:
        lst = []
        for name, tpl in conf.sid_templates.items():
            lst.append((name, [(k, re.compile(e)) for k, e in split_template(tpl)]))
        _cache[key] = lst
    return _cache[key]


def accepts(segs, parts: List[str]) -> Optional[Dict[str, str]]:
    if len(segs) != len(parts):
        return None
    fields: Dict[str, str] = {}
    for (key, pat), part in zip(segs, parts):
        if pat.fullmatch(part) is None:
            return None
        fields[key] = part
    return fields


def type_string(s: str, forced: Optional[str] = None) -> Tuple[str, Dict[str, str]]:
    """('', {}) when untyped."""
    if s == "":
        return "", {}
    parts = s.split("/")
    for name, segs in templates():
        if forced is not None and name != forced:
            continue
        f = accepts(segs, parts)
        if f is not None:
            return name, f
    return "", {}


def all_types(s: str) -> List[Tuple[str, Dict[str, str]]]:
    if s == "":
        return []
    parts = s.split("/")
    out = []
    for name, segs in templates():
        f = accepts(segs, parts)
        if f is not None:
            out.append((name, f))
    return out


def type_fields(fields: Dict[str, str]) -> List[str]:
    """All types whose key SET equals the dictionary's and whose patterns accept every value (whole value,
    and the value must not contain '/', because the canonical string is re-read segment-wise)."""
    out = []
    if not fields:
        return out
    for name, segs in templates():
        keys = [k for k, _ in segs]
        if len(keys) != len(fields):
            continue
        ok = True
        for k, pat in segs:
            if k not in fields:
                ok = False
                break
            v = fields[k]
            if "/" in v or pat.fullmatch(v) is None:
                ok = False
                break
        if ok:
            out.append(name)
    return out


def keys_of(type_name: str) -> List[str]:
    for name, segs in templates():
        if name == type_name:
            return [k for k, _ in segs]
    return []
