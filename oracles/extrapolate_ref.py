"""
Reference template extrapolation and pattern replacement, written from the statement of C19.

  extrapolating the listed types keeps every explicitly configured type with its template and relative
  order, and adds, directly after each extrapolated type and from longest to shortest, one type for every
  '/'-prefix of its template that no other type (explicit or already generated) already owns, named
  basetype + separator + last key of that prefix (skipped if that name is taken); no duplicate type names
  or templates; nothing else is added.
"""
from __future__ import annotations

from typing import Dict, List

SEP = "__"


def placeholder_key(part: str) -> str:
    """'{type:a}' -> 'type' ; '{n}' -> 'n'."""
    body = part
    if body.startswith("{"):
        body = body[1:]
    if body.endswith("}"):
        body = body[:-1]
    return body.split(":", 1)[0]


def extrapolate_ref(sid_templates: Dict[str, str], to_extrapolate: List[str], sep: str = SEP) -> Dict[str, str]:
    out: Dict[str, str] = {}
    explicit_names = list(sid_templates.keys())
    explicit_templates = list(sid_templates.values())
    for name, template in sid_templates.items():
        out[name] = template
        if name not in to_extrapolate:
            continue
        basetype = name.split(sep)[0]
        parts = template.split("/")
        for n in range(len(parts) - 1, 0, -1):          # longest proper prefix first
            prefix = "/".join(parts[:n])
            if prefix in explicit_templates or prefix in out.values():
                continue                                 # owned by another type
            new_name = basetype + sep + placeholder_key(parts[n - 1])
            if new_name in explicit_names or new_name in out:
                continue                                 # name taken
            out[new_name] = prefix
    return out


def pattern_replace_ref(templates: Dict[str, str], key_patterns: Dict[str, Dict[str, str]]) -> Dict[str, str]:
    """A template is rewritten only for the types its selector matches (selector is a substring of the type
    name); replacements are applied in configuration order."""
    out = {}
    for name, template in templates.items():
        for selector, repl in key_patterns.items():
            if selector in name:
                for find, to in repl.items():
                    template = template.replace(find, to)
        out[name] = template
    return out
