"""Reference glob matcher for C08: '*' inside a segment matches any run of characters except '/', every
other character matches itself, and the number of segments must agree."""
from __future__ import annotations

from typing import List


def seg_match(pat: str, seg: str) -> bool:
    """pat is concrete; seg may be symbolic."""
    if "/" in seg:
        return False
    chunks = pat.split("*")
    if len(chunks) == 1:
        return seg == pat
    first, last = chunks[0], chunks[-1]
    if not seg.startswith(first):
        return False
    rest = seg[len(first):]
    for mid in chunks[1:-1]:
        if mid == "":
            continue
        i = rest.find(mid)
        if i < 0:
            return False
        rest = rest[i + len(mid):]
    if last == "":
        return True
    return len(rest) >= len(last) and rest.endswith(last)


def matches(pattern: str, entry: str) -> bool:
    ps = pattern.split("/")
    es = entry.split("/")
    if len(ps) != len(es):
        return False
    for p, e in zip(ps, es):
        if not seg_match(p, e):
            return False
    return True


def found(patterns: List[str], entries: List[str]) -> List[str]:
    out: List[str] = []
    for e in entries:
        hit = False
        for p in patterns:
            if matches(p, e):
                hit = True
                break
        if hit and e not in out:
            out.append(e)
    return out
