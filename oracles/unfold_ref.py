"""
Reference unfolder, written from the statement of C07.

  unfold_search(s) returns, without duplicates, exactly the typed search Sids denoted by s:
   1. extension aliases in the last segment and in an `ext` filter are replaced by their members,
   2. every ',' alternative in a segment or query value is distributed,
   3. a single '/**' stands for any number (zero or more) of '/*' levels that complete the string to a leaf
      type (one ending in the configured leaf key); a string without '**' takes every type whose template
      accepts it,
   4. each result is narrowed to its basetype's configured values,
   5. a trailing query is applied to every typed search, dropping those it does not fit.
  Errors: SpilException for an untypable root before '**' or more than one '**'.

Results are (type, string) pairs.  Alternatives of a ',' list are stripped of surrounding blanks; other whitespace and ':' are outside the reference (preconditions of the
obligations); query keys / values are free of URL metacharacters.
"""
from __future__ import annotations

from typing import Dict, List, Optional, Tuple

from oracles import typing_ref, overlay_ref

MAX_LEVELS = 12


class RefError(Exception):
    """The reference says: SpilException."""


def _conf():
    from spil import conf
    return conf


def expand_alias_list(text: str, alias: Dict[str, List[str]]) -> List[str]:
    out: List[str] = []
    for alt in text.split(","):
        alt = alt.strip()                    # lists may be written with blanks after the commas ('maya, mov')
        for member in alias.get(alt, [alt]):
            if member not in out:
                out.append(member)
    return out


def product(lists: List[List[str]]) -> List[List[str]]:
    acc: List[List[str]] = [[]]
    for alts in lists:
        acc = [prev + [a] for prev in acc for a in alts]
    return acc


def split_query(q: str) -> List[Tuple[str, str]]:
    pairs = overlay_ref.parse_query(q)
    seen: Dict[str, str] = {}
    for k, v in pairs:
        seen[k] = v
    return list(seen.items())


def unfold_ref(s: str) -> List[Tuple[str, str]]:
    conf = _conf()
    alias = conf.extension_alias
    leaf_names = [v for v in conf.leaf_keys.values() if v]      # "an ext filter" = a filter on the configured leaf key
    if "?" in s:
        path, query = s.split("?", 1)
    else:
        path, query = s, ""
    # 1 + 2: aliases, then distribution of alternatives
    segs = path.split("/")
    seg_alts: List[List[str]] = []
    for i, seg in enumerate(segs):
        if i == len(segs) - 1:
            seg_alts.append(expand_alias_list(seg, alias) if seg != "" else [""])
        else:
            seg_alts.append([a.strip() for a in seg.split(",")] if "," in seg else [seg])
    paths = ["/".join(p) for p in product(seg_alts)]
    qpairs = split_query(query) if query else []
    q_alts: List[List[Tuple[str, str]]] = []
    for k, v in qpairs:
        if k in leaf_names:
            vals = expand_alias_list(v, alias)
        else:
            vals = [a.strip() for a in v.split(",")] if "," in v else [v]
        q_alts.append([(k, x) for x in vals])
    queries = ["&".join(k + "=" + v for k, v in combo) for combo in product(q_alts)] if qpairs else [""]

    results: List[Tuple[str, str]] = []
    for p in paths:
        typed = _expand(p, conf)
        for q in queries:
            for (t, string, fields) in typed:
                r = _filter_and_narrow(t, string, fields, q, conf)
                if r is not None and r not in results:
                    results.append(r)
    return results


def _expand(p: str, conf) -> List[Tuple[str, str, Dict[str, str]]]:
    n = p.count("/**")
    if n > 1:
        raise RefError("more than one **")
    if n == 0:
        return [(t, p, f) for t, f in typing_ref.all_types(p)]
    root = p.split("/**")[0]
    rt, _ = typing_ref.type_string(root)
    if not rt:
        raise RefError("untypable root")
    basetype = rt.split(conf.sidtype_keytype_sep)[0]
    leaf = conf.leaf_keys.get(basetype)
    if not leaf:
        raise RefError("no leaf key")
    out = []
    for levels in range(0, MAX_LEVELS):
        test = p.replace("/**", "/*" * levels)
        for t, f in typing_ref.all_types(test):
            if list(f.keys())[-1] == leaf:
                out.append((t, test, f))
    return out


def _filter_and_narrow(t: str, string: str, fields: Dict[str, str], q: str, conf) -> Optional[Tuple[str, str]]:
    if q:
        applied, t, fields, string = overlay_ref.apply(string, t, fields, q)
        if not applied:
            return None
    basetype = t.split(conf.sidtype_keytype_sep)[0]
    nq = conf.basetyped_search_narrowing.get(basetype, "")
    if nq:
        applied, t, fields, string = overlay_ref.apply(string, t, fields, nq)
        if not applied:
            return None
    return (t, string)
