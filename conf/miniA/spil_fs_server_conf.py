# type: ignore
"""miniA server path configuration (root /z): the local templates with the root replaced."""
from spil_fs_conf import *  # noqa

project_server_root = '/z'
path_templates = {k: v.replace(project_root, project_server_root, 1) for k, v in path_templates.items()}
