# type: ignore
"""miniA local path configuration (root /r). Mirrors spil_hamlet_conf/spil_fs_conf.py."""
from spil_sid_conf import key_patterns

project_root = '/r'

path_templates = {
    'a__f':       '{@root}/{p}/{t:A}/{n}/{version}/{n}_{version}.{ext:scenes}',
    'a__g':       '{@root}/{p}/{t:A}/{n}/{version}/O/{n}_{version}.{ext:movies}',
    'a__version': '{@root}/{p}/{t:A}/{n}/{version}',
    'a__n':       '{@root}/{p}/{t:A}/{n}',
    'a':          '{@root}/{p}/{t:A}',

    's__f':       '{@root}/{p}/{t:S}/{q}/{version}/{q}_{version}.{ext:scenes}',
    's__of':      '{@root}/{p}/{t:S}/{q}/{version}/E/{q}_{o}_{version}.{ext:caches}',
    's__c':       '{@root}/{p}/{t:S}/{q}/{version}/E/{q}_{version}.{ext:caches}',
    's__version': '{@root}/{p}/{t:S}/{q}/{version}',
    's__q':       '{@root}/{p}/{t:S}/{q}',
    's':          '{@root}/{p}/{t:S}',

    'p':          '{@root}/{p}',
}
path_templates = {k: v.replace('{@root}', project_root) for k, v in path_templates.items()}

path_defaults = {}
sidkeys_to_extrakeys = {}
extrakeys_to_sidkeys = {}

path_mapping = {
    'p': {'H': 'h'},
    't': {'A': 'a', 'S': 's'},
}

search_path_mapping = {}

project_path_names = list(path_mapping.get('p').keys())

key_patterns = {k: dict(v) for k, v in key_patterns.items()}

key_patterns[''].update({
    '{p}':   r'{p:(' + '|'.join(project_path_names) + r'|\*|\>)}',
    '{t:S}': r'{t:(S|\*|\>)}',
    '{t:A}': r'{t:(A|\*|\>)}',
})
