# type: ignore
"""
miniA: a miniature, well-formed Sid configuration for engine X (CrossHair).

It keeps every structural feature of the shipped spil_hamlet_conf (several file types sharing one key
set, a node / no-node branch, extrapolated intermediate types, closed and free value patterns, a digit
pattern, an extension alias, basetype narrowing, selector based pattern injection) with one-character
tokens, so that symbolic execution of the *unmodified* library code exhausts its paths.

The version pattern has MINI_VDIGITS digits (default 1; C18 uses 3, as hamlet_plugins.next_get formats "v%03d").
"""
import os

sip = '/'

projects = ['h']

sid_templates = {

    # basetype a ("asset"): project / type / name / version / ext
    'a__f':   '{p}/{t:a}/{n}/{version}/{ext:scenes}',
    'a__g':   '{p}/{t:a}/{n}/{version}/{ext:movies}',
    'a__version': '{p}/{t:a}/{n}/{version}',        # extrapolated
    'a':      '{p}/{t:a}',

    # basetype s ("shot"): project / type / seq / version / [node] / ext
    's__f':   '{p}/{t:s}/{q}/{version}/{ext:scenes}',
    's__c':   '{p}/{t:s}/{q}/{version}/{ext:caches}',
    's__of':  '{p}/{t:s}/{q}/{version}/{o}/{ext:caches}',
    's__o':   '{p}/{t:s}/{q}/{version}/{o}',
    's__version': '{p}/{t:s}/{q}/{version}',        # extrapolated
    's':      '{p}/{t:s}',

    'p':      '{p}',
}

to_extrapolate = ['a__version', 's__version']

extensions_scene = ['m', 'b', 'y']
extensions_cache = ['c', 'j', 'z']
extensions_movie = ['g', 'k']

extension_alias = {
    'y': ['m', 'b'],
    'z': ['c', 'j'],
}

_vd = r'\d' * int(os.environ.get('MINI_VDIGITS', '1'))

key_patterns = {

    '__': {
        '{version}':    r'{version:(v' + _vd + r'|\*|\>)}',
        '{q}':          r'{q:(q\d|\*|\>)}',
        '{ext:scenes}': r'{ext:(' + '|'.join(extensions_scene) + r'|\*|\>)}',
        '{ext:caches}': r'{ext:(' + '|'.join(extensions_cache) + r'|\*|\>)}',
        '{ext:movies}': r'{ext:(' + '|'.join(extensions_movie) + r'|\*|\>)}',
    },
    '': {   # every type
        '{p}':   r'{p:(' + '|'.join(projects) + r'|\*|\>)}',
        '{t:a}': r'{t:(a|\*|\>)}',
        '{t:s}': r'{t:(s|\*|\>)}',
    },
}

key_types = {
    'a': ['p', 't', 'n', 'version', 'ext'],
    's': ['p', 't', 'q', 'version', 'o', 'ext'],
    'p': ['p'],
}

leaf_keys = {'a': 'ext',
             's': 'ext',
             'p': 'ext',
             None: 'ext'}

basetyped_search_narrowing = {
    'a': 't=~a',
    's': 't=~s',
}

typed_search_narrowing = {}
