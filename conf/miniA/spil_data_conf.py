# type: ignore
"""miniA data configuration. Same structure as spil_hamlet_conf/spil_data_conf.py."""
from __future__ import annotations
from pathlib import Path

path_configs = {'local': 'spil_fs_conf',
                'server': 'spil_fs_server_conf'}

default_path_config = 'local'


_finders_by_type: dict = {}


def _get_finders_by_type() -> dict:
    """Finder instances are built once (same structure as the shipped spil_data_conf)."""
    if not _finders_by_type:
        from spil_sid_conf import projects
        from spil import FindInConstants, FindInPaths

        finder_paths = FindInPaths()
        finder_projects = FindInConstants('p', projects)
        finder_types = FindInConstants('t', ['a', 's'], parent_source=finder_projects)
        _finders_by_type.update({
            'p': finder_projects,
            'a': finder_types,
            's': finder_types,
            'default': finder_paths,
        })
    return _finders_by_type


def get_finder_for(search_sid, config=None):
    finders_by_type = _get_finders_by_type()
    finder = finders_by_type.get(search_sid.type, {}) or finders_by_type.get('default', {})
    return finder or None


_default_getter: list = []


def _get_default_getter():
    if not _default_getter:
        from spil import GetFromPaths
        _default_getter.append(GetFromPaths())
    return _default_getter[0]


def get_getter_for(sid, attribute=None, config=None):
    from hamlet_plugins.next_get import NextGetter   # the repository's plugin (spil_hamlet_conf is on the path)

    attribute_getters = {
        'next.version': NextGetter(),
    }
    getter = attribute_getters.get(attribute)
    if getter:
        return getter

    getters_by_type = {
        'p': None,
        'a': None,
        's': None,
        'default': _get_default_getter(),
    }
    if sid.type in getters_by_type:
        return getters_by_type.get(sid.type)
    return getters_by_type.get('default')


def get_writer_for(sid):
    raise NotImplementedError('get_writer_for is not implemented')


path_data_suffix = '.data.json'
create_file_using_template = {}
create_file_using_touch = True


def get_data_json_path(sid_path: Path) -> Path:
    return sid_path.with_name('.' + sid_path.name).with_suffix(path_data_suffix)
