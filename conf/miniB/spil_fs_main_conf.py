# type: ignore
"""miniB path configuration 'main' (root /m): '-' and '.' as file-name separators, fixed folders of its own."""
from spil_sid_conf import key_patterns

project_root = '/m'

def make_templates(root, PROPS='PROPS', CUTS='CUTS', LIB='LIB'):
    """a fresh template dictionary (PathConfig rewrites the dictionary it is given in place)"""
    t = {
        'pr__file':    '{@root}/{prj}/{kind:PROPS}/{fam}/{item}/{rev}/{fam}-{item}-{status}.{rev}.{fmt:images}',
        'pr__doc':     '{@root}/{prj}/{kind:PROPS}/{fam}/{item}/{rev}/{fam}-{item}-{status}.{rev}.{fmt:docs}',
        'pr__rev':     '{@root}/{prj}/{kind:PROPS}/{fam}/{item}/{rev}',
        'pr__item':    '{@root}/{prj}/{kind:PROPS}/{fam}/{item}',
        'pr__fam':     '{@root}/{prj}/{kind:PROPS}/{fam}',
        'pr':          '{@root}/{prj}/{kind:PROPS}',

        'ct__file':    '{@root}/{prj}/{kind:CUTS}/{reel}/{rev}/OUT/{reel}-{status}.{rev}.{fmt:movies}',
        'ct__sound':   '{@root}/{prj}/{kind:CUTS}/{reel}/{status}/{rev}/SND/{reel}-{status}.{rev}.{fmt:sounds}',   # {status} comes BEFORE {rev} here (not the Sid's key order)
        'ct__rev':     '{@root}/{prj}/{kind:CUTS}/{reel}/{rev}',
        'ct__reel':    '{@root}/{prj}/{kind:CUTS}/{reel}',
        'ct':          '{@root}/{prj}/{kind:CUTS}',

        'l_ib__file':   '{@root}/{prj}/{kind:LIB}/{item}.{fmt:images}',
        'l_ib':       '{@root}/{prj}/{kind:LIB}',

        'prj':         '{@root}/{prj}',
    }
    return {k: v.replace('{@root}', root).replace('{kind:PROPS}', '{kind:%s}' % PROPS).replace('{kind:CUTS}', '{kind:%s}' % CUTS).replace('{kind:LIB}', '{kind:%s}' % LIB)
            for k, v in t.items()}


path_templates = make_templates(project_root)

path_defaults = {}
sidkeys_to_extrakeys = {}
extrakeys_to_sidkeys = {}

path_mapping = {
    'prj':    {'M': 'm'},
    'kind':   {'PROPS': 'p', 'CUTS': 'c', 'LIB': 'l'},
    'status': {'SAV': 's', 'PUB': 'p'},
}

search_path_mapping = {}

key_patterns = {k: dict(v) for k, v in key_patterns.items()}
key_patterns['__'].update({
    '{status}': r'{status:(SAV|PUB|\*|\>)}',
})
key_patterns[''].update({
    '{prj}':        r'{prj:(M|\*|\>)}',
    '{kind:PROPS}': r'{kind:(PROPS|\*|\>)}',
    '{kind:CUTS}':  r'{kind:(CUTS|\*|\>)}',
    '{kind:LIB}':   r'{kind:(LIB|\*|\>)}',
})
