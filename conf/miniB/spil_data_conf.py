# type: ignore
"""miniB data configuration: three path configurations, constants-backed project / kind levels."""
from __future__ import annotations
from pathlib import Path

path_configs = {'main': 'spil_fs_main_conf',       # no module is called 'spil_fs_conf' (PathConfig's default name) here
                'mirror': 'spil_fs_mirror_conf',
                'archive': 'spil_fs_archive_conf'}

default_path_config = ''      # empty: the FIRST entry of path_configs is the default

_finders_by_type: dict = {}


def _get_finders_by_type() -> dict:
    if not _finders_by_type:
        from spil_sid_conf import projects
        from spil import FindInConstants, FindInPaths

        finder_paths = FindInPaths()
        finder_projects = FindInConstants('prj', projects)
        finder_kinds = FindInConstants('kind', ['p', 'c', 'l'], parent_source=finder_projects)
        _finders_by_type.update({
            'prj': finder_projects,
            'pr': finder_kinds,
            'ct': finder_kinds,
            'l_ib': finder_kinds,
            'default': finder_paths,
        })
    return _finders_by_type


def get_finder_for(search_sid, config=None):
    finders_by_type = _get_finders_by_type()
    finder = finders_by_type.get(search_sid.type, {}) or finders_by_type.get('default', {})
    return finder or None


_default_getter: list = []


def _get_default_getter():
    if not _default_getter:
        from spil import GetFromPaths
        _default_getter.append(GetFromPaths())
    return _default_getter[0]


def get_getter_for(sid, attribute=None, config=None):
    # 'ct__reel' (a third-level type) has no Getter while its siblings of the same depth (pr__fam, l_ib__item) have the default one
    getters_by_type = {'prj': None, 'pr': None, 'ct': None, 'l_ib': None, 'ct__reel': None, 'default': _get_default_getter()}
    if sid.type in getters_by_type:
        return getters_by_type.get(sid.type)
    return getters_by_type.get('default')


def get_writer_for(sid):
    raise NotImplementedError('get_writer_for is not implemented')


path_data_suffix = '.data.json'
create_file_using_template = {}
create_file_using_touch = True


def get_data_json_path(sid_path: Path) -> Path:
    return sid_path.with_name('.' + sid_path.name).with_suffix(path_data_suffix)
