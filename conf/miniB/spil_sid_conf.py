# type: ignore
"""
miniB: a second well-formed configuration for C20.  Compared with the demo configuration (and miniA) it renames every key,
basetype and type code, names the leaf key 'fmt' (not 'ext'), has a third basetype whose name contains an underscore ('l_ib'), per-basetype leaf keys ('rev' for 'ct'), one hierarchy level more
(fam / item), closed vocabularies of its own, a digit-only revision pattern, and its value codes overlap between keys
('p' is both a kind and a status) while every mapping stays one-to-one; one intermediate level (pr__item) is declared
explicitly inside an extrapolated chain.
"""
sip = '/'

projects = ['m']

sid_templates = {

    # basetype pr ("prop"): prj / kind / fam / item / rev / status / fmt
    'pr__file':    '{prj}/{kind:p}/{fam}/{item}/{rev}/{status}/{fmt:images}',
    'pr__doc':     '{prj}/{kind:p}/{fam}/{item}/{rev}/{status}/{fmt:docs}',          # same keys and same folder / file-name pattern as pr__file: both search the same glob
    'pr__status':  '{prj}/{kind:p}/{fam}/{item}/{rev}/{status}',          # extrapolated
    'pr__item':    '{prj}/{kind:p}/{fam}/{item}',                         # an intermediate level declared explicitly: extrapolation skips it and goes on (pr__fam above it is generated)
    'pr':          '{prj}/{kind:p}',

    # basetype ct ("cut"): prj / kind / reel / rev / status / fmt
    # ({reel:r}: a TAGGED placeholder at an intermediate, extrapolated level)
    'ct__file':    '{prj}/{kind:c}/{reel:r}/{rev}/{status}/{fmt:movies}',
    'ct__sound':   '{prj}/{kind:c}/{reel:r}/{rev}/{status}/{fmt:sounds}',
    'ct__status':  '{prj}/{kind:c}/{reel:r}/{rev}/{status}',                # extrapolated
    'ct':          '{prj}/{kind:c}',

    # basetype lib: prj / kind / item / fmt
    'l_ib__file':   '{prj}/{kind:l}/{item}/{fmt:images}',                  # extrapolated
    'l_ib':       '{prj}/{kind:l}',

    'prj':         '{prj}',
}

to_extrapolate = ['pr__status', 'ct__status', 'l_ib__file']

formats_image = ['i', 'j', 'k']
formats_movie = ['u', 'w']
formats_sound = ['o', 'n', 'z']
formats_doc = ['d', 't']

extension_alias = {
    'k': ['i', 'j'],
    'z': ['o', 'n'],
}

key_patterns = {

    '__': {
        '{rev}':        r'{rev:(\d\d|\*|\>)}',
        '{status}':     r'{status:(s|p|\*|\>)}',
        '{reel}':       r'{reel:(r\d|\*|\>)}',
        '{reel:r}':     r'{reel:(r\d|\*|\>)}',
        '{fam}':        r'{fam:(x|y|\*|\>)}',
        '{fmt:images}': r'{fmt:(' + '|'.join(formats_image) + r'|\*|\>)}',
        '{fmt:movies}': r'{fmt:(' + '|'.join(formats_movie) + r'|\*|\>)}',
        '{fmt:sounds}': r'{fmt:(' + '|'.join(formats_sound) + r'|\*|\>)}',
        '{fmt:docs}':   r'{fmt:(' + '|'.join(formats_doc) + r'|\*|\>)}',
    },
    '': {
        '{prj}':    r'{prj:(' + '|'.join(projects) + r'|\*|\>)}',
        '{kind:p}': r'{kind:(p|\*|\>)}',
        '{kind:c}': r'{kind:(c|\*|\>)}',
        '{kind:l}': r'{kind:(l|\*|\>)}',
    },
}

key_types = {
    'pr':  ['prj', 'kind', 'fam', 'item', 'rev', 'status', 'fmt'],
    'ct':  ['prj', 'kind', 'reel', 'rev', 'status', 'fmt'],
    'l_ib': ['prj', 'kind', 'item', 'fmt'],
    'prj': ['prj'],
}

# the leaf key differs per basetype: for 'ct' it is an inner level ('rev') of the others
leaf_keys = {'pr': 'fmt', 'ct': 'rev', 'l_ib': 'fmt'}      # basetypes only: no entry for None / for the one-level 'prj'

basetyped_search_narrowing = {
    'pr': 'kind=~p',
    'ct': 'kind=~c',
    'l_ib': 'kind=~l',
}

typed_search_narrowing = {}
