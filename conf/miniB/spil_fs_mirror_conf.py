# type: ignore
"""miniB path configuration 'mirror' (root /n): the main templates with another root."""
from spil_fs_main_conf import make_templates, path_defaults, sidkeys_to_extrakeys, extrakeys_to_sidkeys, path_mapping, search_path_mapping, key_patterns as _kp

path_templates = make_templates('/n')
key_patterns = {k: dict(v) for k, v in _kp.items()}
