# type: ignore
"""miniB path configuration 'archive' (root /o): same structure, a path vocabulary of its own."""
from spil_sid_conf import key_patterns as _kp
from spil_fs_main_conf import make_templates

path_templates = make_templates('/o', 'props', 'cuts', 'lib')

path_defaults = {}
sidkeys_to_extrakeys = {}
extrakeys_to_sidkeys = {}

path_mapping = {
    'prj':    {'M24': 'm'},
    'kind':   {'props': 'p', 'cuts': 'c', 'lib': 'l'},
    'status': {'wip': 's', 'final': 'p'},
}

search_path_mapping = {}

key_patterns = {k: dict(v) for k, v in _kp.items()}
key_patterns['__'].update({
    '{status}': r'{status:(wip|final|\*|\>)}',
})
key_patterns[''].update({
    '{prj}':        r'{prj:(M24|\*|\>)}',
    '{kind:props}': r'{kind:(props|\*|\>)}',
    '{kind:cuts}':  r'{kind:(cuts|\*|\>)}',
    '{kind:lib}':   r'{kind:(lib|\*|\>)}',
})
